"""Independent oracle language: expression trees with their own evaluator,
renderer (to PyGOM equation strings) and differentiator; `ModelSpec` gives the
reference semantics of a model definition without passing through sympy."""
import fractions
import itertools
import math
import random

import numpy as np

from . import sym
from .sym import Sym


class E(object):
    def __add__(self, o): return Add(self, lift(o))
    def __radd__(self, o): return Add(lift(o), self)
    def __sub__(self, o): return Add(self, Neg(lift(o)))
    def __rsub__(self, o): return Add(lift(o), Neg(self))
    def __mul__(self, o): return Mul(self, lift(o))
    def __rmul__(self, o): return Mul(lift(o), self)
    def __truediv__(self, o): return Div(self, lift(o))
    def __rtruediv__(self, o): return Div(lift(o), self)
    def __neg__(self): return Neg(self)
    def __pow__(self, n): return Pow(self, int(n))


class Const(E):
    def __init__(self, v):
        self.v = v


class Var(E):
    def __init__(self, name):
        self.name = name


class Add(E):
    def __init__(self, a, b):
        self.a, self.b = a, b


class Mul(E):
    def __init__(self, a, b):
        self.a, self.b = a, b


class Div(E):
    def __init__(self, a, b):
        self.a, self.b = a, b


class Neg(E):
    def __init__(self, a):
        self.a = a


class Pow(E):
    def __init__(self, a, n):
        self.a, self.n = a, n


class Fn(E):
    def __init__(self, f, a):
        self.f, self.a = f, a


def lift(v):
    return v if isinstance(v, E) else Const(v)


def exp(a): return Fn("exp", lift(a))
def log(a): return Fn("log", lift(a))
def sin(a): return Fn("sin", lift(a))
def cos(a): return Fn("cos", lift(a))
def sqrt(a): return Fn("sqrt", lift(a))
def lgamma(a): return Fn("lgamma", lift(a))


ZERO, ONE = Const(0), Const(1)


def is_const(e, v=None):
    return isinstance(e, Const) and (v is None or e.v == v)


# ---- renderer ---------------------------------------------------------------
def render(e):
    if isinstance(e, Const):
        v = e.v
        if isinstance(v, fractions.Fraction):
            return "(%d/%d)" % (v.numerator, v.denominator) if v.denominator != 1 else str(v.numerator)
        return repr(v) if v >= 0 else "(%r)" % v
    if isinstance(e, Var):
        return e.name
    if isinstance(e, Add):
        if isinstance(e.b, Neg):
            return "(%s - %s)" % (render(e.a), render(e.b.a))
        return "(%s + %s)" % (render(e.a), render(e.b))
    if isinstance(e, Mul):
        return "%s*%s" % (_par(e.a), _par(e.b))
    if isinstance(e, Div):
        return "%s/%s" % (_par(e.a), _par(e.b, True))
    if isinstance(e, Neg):
        return "(-%s)" % _par(e.a)
    if isinstance(e, Pow):
        return "%s**%d" % (_par(e.a, True), e.n)
    if isinstance(e, Fn):
        return "%s(%s)" % (e.f, render(e.a))
    raise TypeError(e)


def _par(e, strict=False):
    s = render(e)
    if isinstance(e, (Var, Fn)) or (isinstance(e, Const) and not s.startswith("(")) or s.startswith("("):
        if strict and isinstance(e, (Mul, Div, Pow)):
            return "(%s)" % s
        return s
    return "(%s)" % s


# ---- evaluator -----------------------------------------------------------------
def ev(e, env):
    """evaluate with python operators: env maps names to Sym (symbolic) or float"""
    if isinstance(e, Const):
        return e.v
    if isinstance(e, Var):
        return env[e.name]
    if isinstance(e, Add):
        return ev(e.a, env) + ev(e.b, env)
    if isinstance(e, Mul):
        return ev(e.a, env) * ev(e.b, env)
    if isinstance(e, Div):
        return ev(e.a, env) / ev(e.b, env)
    if isinstance(e, Neg):
        return -ev(e.a, env)
    if isinstance(e, Pow):
        return ev(e.a, env) ** e.n
    if isinstance(e, Fn):
        a = ev(e.a, env)
        if isinstance(a, Sym):
            return getattr(a, e.f)()
        return getattr(math, e.f)(a)
    raise TypeError(e)


# ---- substitution / differentiation ----------------------------------------------
def subs(e, m):
    if isinstance(e, Const):
        return e
    if isinstance(e, Var):
        return m.get(e.name, e)
    if isinstance(e, (Add, Mul, Div)):
        return type(e)(subs(e.a, m), subs(e.b, m))
    if isinstance(e, Neg):
        return Neg(subs(e.a, m))
    if isinstance(e, Pow):
        return Pow(subs(e.a, m), e.n)
    if isinstance(e, Fn):
        return Fn(e.f, subs(e.a, m))
    raise TypeError(e)


def _add(a, b):
    if is_const(a, 0):
        return b
    if is_const(b, 0):
        return a
    return Add(a, b)


def _mul(a, b):
    if is_const(a, 0) or is_const(b, 0):
        return ZERO
    if is_const(a, 1):
        return b
    if is_const(b, 1):
        return a
    return Mul(a, b)


def _neg(a):
    if is_const(a, 0):
        return ZERO
    return Neg(a)


def d(e, x):
    """partial derivative of e with respect to variable name x"""
    if isinstance(e, Const):
        return ZERO
    if isinstance(e, Var):
        return ONE if e.name == x else ZERO
    if isinstance(e, Add):
        return _add(d(e.a, x), d(e.b, x))
    if isinstance(e, Neg):
        return _neg(d(e.a, x))
    if isinstance(e, Mul):
        return _add(_mul(d(e.a, x), e.b), _mul(e.a, d(e.b, x)))
    if isinstance(e, Div):
        da, db = d(e.a, x), d(e.b, x)
        if is_const(db, 0):
            return ZERO if is_const(da, 0) else Div(da, e.b)
        return Div(_add(_mul(da, e.b), _neg(_mul(e.a, db))), Pow(e.b, 2))
    if isinstance(e, Pow):
        da = d(e.a, x)
        if is_const(da, 0) or e.n == 0:
            return ZERO
        if e.n == 1:
            return da
        return _mul(_mul(Const(e.n), Pow(e.a, e.n - 1)), da)
    if isinstance(e, Fn):
        da = d(e.a, x)
        if is_const(da, 0):
            return ZERO
        if e.f == "exp":
            return _mul(e, da)
        if e.f == "log":
            return Div(da, e.a)
        if e.f == "sin":
            return _mul(cos(e.a), da)
        if e.f == "cos":
            return _neg(_mul(sin(e.a), da))
        if e.f == "sqrt":
            return Div(da, _mul(Const(2), e))
        if e.f == "lgamma":
            raise NotImplementedError("digamma not modelled: lgamma argument must not depend on %s" % x)
    raise TypeError(e)


def names(e, acc=None):
    acc = set() if acc is None else acc
    if isinstance(e, Var):
        acc.add(e.name)
    for k in ("a", "b"):
        if hasattr(e, k) and isinstance(getattr(e, k), E):
            names(getattr(e, k), acc)
    return acc


# ---- model definitions -------------------------------------------------------------
class Tr(object):
    """one transition inside an event: kind in 'T','B','D'"""

    def __init__(self, kind, origin=None, destination=None, magnitude=1, birth_by_origin=False):
        self.kind, self.origin, self.destination = kind, origin, destination
        self.magnitude = lift(magnitude)
        self.birth_by_origin = birth_by_origin


class Ev(object):
    def __init__(self, rate, transitions):
        self.rate = lift(rate)
        self.transitions = transitions


class ModelSpec(object):
    def __init__(self, name, states, params, events=(), odes=(), derived=(), limits=None, state_decl=None):
        self.name = name
        self.states = list(states)
        self.params = list(params)
        self.events = list(events)
        self.odes = list(odes)             # [(state, E)]
        self.derived = list(derived)       # [(name, E)] may refer to earlier derived names
        self.limits = limits               # {state: (lo, hi)}
        self.state_decl = state_decl       # alternative declaration passed to PyGOM (e.g. 'y1:4')

    # -- reference semantics ------------------------------------------------
    def _dsub(self):
        m = {}
        for n, e in self.derived:
            m[n] = subs(e, m)
        return m

    def rates(self):
        m = self._dsub()
        return [subs(ev_.rate, m) for ev_ in self.events]

    def V(self):
        m = self._dsub()
        nS = len(self.states)
        V = [[ZERO for _ in self.events] for _ in range(nS)]
        for j, ev_ in enumerate(self.events):
            for tr in ev_.transitions:
                mag = subs(tr.magnitude, m)
                if tr.kind == "B":
                    tgt = tr.origin if tr.birth_by_origin else tr.destination
                    i = self.states.index(tgt)
                    V[i][j] = _add(V[i][j], mag)
                elif tr.kind == "D":
                    i = self.states.index(tr.origin)
                    V[i][j] = _add(V[i][j], _neg(mag))
                else:
                    i = self.states.index(tr.origin)
                    k = self.states.index(tr.destination)
                    V[i][j] = _add(V[i][j], _neg(mag))
                    V[k][j] = _add(V[k][j], mag)
        return V

    def reactant(self):
        nS = len(self.states)
        L = [[0 for _ in self.events] for _ in range(nS)]
        for j, ev_ in enumerate(self.events):
            for tr in ev_.transitions:
                for s in (tr.origin, tr.destination):
                    if s is not None:
                        L[self.states.index(s)][j] = 1
        return L

    def pure(self):
        m = self._dsub()
        out = [ZERO for _ in self.states]
        for s, e in self.odes:
            i = self.states.index(s)
            out[i] = _add(out[i], subs(e, m))
        return out

    def rhs(self):
        V, r, p = self.V(), self.rates(), self.pure()
        out = []
        for i in range(len(self.states)):
            acc = p[i]
            for j in range(len(self.events)):
                acc = _add(acc, _mul(r[j], V[i][j]))
            out.append(acc)
        return out

    # -- the real model --------------------------------------------------------
    def build(self, lam=True, route="event"):
        from pygom import SimulateOde, Transition, Event
        from pygom.model import ode_utils
        events = []
        for ev_ in self.events:
            trs = []
            for tr in ev_.transitions:
                kw = {"transition_type": tr.kind, "magnitude": render(tr.magnitude)}
                if tr.kind == "B":
                    if tr.birth_by_origin:
                        kw["origin"] = tr.origin
                    else:
                        kw["destination"] = tr.destination
                elif tr.kind == "D":
                    kw["origin"] = tr.origin
                else:
                    kw["origin"], kw["destination"] = tr.origin, tr.destination
                trs.append(Transition(**kw))
            events.append(Event(rate=render(ev_.rate), transition_list=trs))
        odes = [Transition(origin=s, equation=render(e), transition_type="ODE") for s, e in self.odes]
        if self.limits:
            state = [(s, self.limits[s]) if s in self.limits else s for s in self.states]
        else:
            state = self.state_decl if self.state_decl is not None else list(self.states)
        m = SimulateOde(state=state, param=list(self.params),
                        derived_param=[(n, render(e)) for n, e in self.derived] or None,
                        event=events or None, ode=odes or None)
        if lam:
            m._SC = ode_utils.compileCode(backend="lambda")
        return m

    def describe(self):
        return {"name": self.name, "states": self.states, "params": self.params,
                "events": [{"rate": render(e.rate), "transitions": [(t.kind, t.origin, t.destination, render(t.magnitude)) for t in e.transitions]} for e in self.events],
                "odes": [(s, render(e)) for s, e in self.odes], "derived": [(n, render(e)) for n, e in self.derived]}


def v(*ns):
    r = tuple(Var(n) for n in ns)
    return r if len(r) > 1 else r[0]


def F0():
    """fixed core family: one feature each; asymmetric (nS, nP)"""
    fam = []
    S, J, Rr, b, g, N, c, p, q, w, k, t = v("S", "J", "R", "b", "g", "N", "c", "p", "q", "w", "k", "t")
    X, Y, Z, W = v("X", "Y", "Z", "W")
    a1 = Var("a")
    fam.append(ModelSpec("decay_1s1e", ["X"], ["a"], [Ev(a1 * X, [Tr("D", origin="X")])]))
    fam.append(ModelSpec("bd_1s2e", ["X"], ["a", "b"], [Ev(a1, [Tr("B", destination="X")]), Ev(b * X, [Tr("D", origin="X")])]))
    fam.append(ModelSpec("xy_2s1e", ["X", "Y"], ["a"], [Ev(a1 * X, [Tr("T", "X", "Y")])]))
    fam.append(ModelSpec("sir", ["S", "J", "R"], ["b", "g"],
                         [Ev(b * S * J, [Tr("T", "S", "J")]), Ev(g * J, [Tr("T", "J", "R")])]))
    fam.append(ModelSpec("sir_mag", ["S", "J", "R"], ["b", "g", "c"],
                         [Ev(b * S * J / (S + J + Rr), [Tr("T", "S", "J", magnitude=c)]), Ev(g * J, [Tr("T", "J", "R", magnitude=2)])]))
    fam.append(ModelSpec("sir_bd_multi", ["S", "J", "R"], ["b", "g", "B", "mu"],
                         [Ev(b * S * J, [Tr("T", "S", "J")]), Ev(g * J, [Tr("T", "J", "R")]),
                          Ev(Var("B"), [Tr("B", destination="S")]),
                          Ev(Var("mu") * S, [Tr("D", origin="S"), Tr("B", destination="R", magnitude=2)])]))
    fam.append(ModelSpec("birth_by_origin", ["X", "Y"], ["a", "b", "g"],
                         [Ev(a1, [Tr("B", origin="X", birth_by_origin=True)]), Ev(b * X, [Tr("T", "X", "Y")]),
                          Ev(g * Y, [Tr("D", origin="Y")])]))
    fam.append(ModelSpec("ode_mixed", ["X", "Y"], ["a", "b", "g"],
                         [Ev(a1 * X, [Tr("T", "X", "Y")])], odes=[("Y", -b * Y * Y + g), ("X", g * Y)]))
    fam.append(ModelSpec("derived_nested", ["S", "J"], ["b", "g", "N"],
                         [Ev(Var("foi") * S, [Tr("T", "S", "J")]), Ev(g * J, [Tr("D", origin="J")])],
                         derived=[("frac", J / N), ("foi", b * Var("frac"))]))
    fam.append(ModelSpec("saturating", ["X", "Y"], ["p", "q"],
                         [Ev(p * X / (1 + q * X), [Tr("T", "X", "Y")]), Ev(q * Y, [Tr("T", "Y", "X")])]))
    fam.append(ModelSpec("exponential", ["X", "Y"], ["p", "q", "g"],
                         [Ev(p * exp(-q * X) * Y, [Tr("T", "Y", "X")]), Ev(g * X, [Tr("D", origin="X")])]))
    fam.append(ModelSpec("periodic", ["X", "Y"], ["p", "q", "w"],
                         [Ev(p * (1 + q * cos(w * t)) * X * Y, [Tr("T", "X", "Y")]), Ev(q * Y, [Tr("T", "Y", "X")])]))
    y1, y2, y3 = v("y1", "y2", "y3")
    fam.append(ModelSpec("vector_states", ["y1", "y2", "y3"], ["a"],
                         [Ev(a1 * y1, [Tr("T", "y1", "y2")]), Ev(a1 * y2 * y3, [Tr("T", "y2", "y3")])], state_decl="y1:4"))
    fam.append(ModelSpec("four_one", ["W", "X", "Y", "Z"], ["a"],
                         [Ev(a1 * W * X, [Tr("T", "W", "X")]), Ev(a1 * X, [Tr("T", "X", "Y")]), Ev(a1 * Y * Y, [Tr("T", "Y", "Z", magnitude=2)])]))
    fam.append(ModelSpec("three_zero", ["X", "Y", "Z"], [],
                         [Ev(X * Y, [Tr("T", "X", "Y")]), Ev(Const(2) * Y, [Tr("T", "Y", "Z")])]))
    fam.append(ModelSpec("two_three", ["X", "Y"], ["a", "b", "g"],
                         [Ev(a1 * X * Y, [Tr("T", "X", "Y")]), Ev(b * Y, [Tr("D", origin="Y")]), Ev(g, [Tr("B", destination="X")])]))
    return fam


F0_QUICK = ["decay_1s1e", "bd_1s2e", "sir_mag", "sir_bd_multi", "birth_by_origin", "ode_mixed", "derived_nested",
            "saturating", "exponential", "periodic", "vector_states", "two_three", "three_zero"]


def by_name(name):
    for m in F0():
        if m.name == name:
            return m
    raise KeyError(name)


# ---- generated family G(seed) ----------------------------------------------------------
def generate(seed, count):
    rng = random.Random(seed)
    out = []
    for idx in range(count):
        nS = rng.randint(1, 5)
        nP = rng.randint(1, 5)
        states = ["x%d" % i for i in range(nS)]
        params = ["p%d" % i for i in range(nP)]
        sv = [Var(s) for s in states]
        pv = [Var(p) for p in params]
        derived = []
        if rng.random() < 0.4:
            derived.append(("dd", rng.choice(pv) * rng.choice(sv) + rng.choice(pv)))
            if rng.random() < 0.5:
                derived.append(("ee", Var("dd") / (1 + rng.choice(pv) * rng.choice(pv))))
        usable_p = pv + [Var(n) for n, _ in derived]

        def rate():
            kind = rng.choice(["lin", "mass", "sat", "exp", "per"])
            P, Q = rng.choice(usable_p), rng.choice(usable_p)
            Xs, Ys = rng.choice(sv), rng.choice(sv)
            if kind == "lin":
                return P * Xs
            if kind == "mass":
                return P * Xs * Ys
            if kind == "sat":
                return P * Xs / (1 + Q * Q * Xs * Xs)
            if kind == "exp":
                return P * exp(-Q * Xs) * Ys
            return P * (1 + Q * cos(Q * Var("t"))) * Xs
        events = []
        for _ in range(rng.randint(0, 5)):
            trs = []
            for _ in range(rng.randint(1, 3)):
                kind = rng.choice(["T", "B", "D"]) if nS > 1 else rng.choice(["B", "D"])
                mag = rng.choice([1, 1, 2, 3, rng.choice(pv)])
                if kind == "T":
                    o, dd_ = rng.sample(states, 2)
                    trs.append(Tr("T", o, dd_, magnitude=mag))
                elif kind == "B":
                    if rng.random() < 0.3:
                        trs.append(Tr("B", origin=rng.choice(states), magnitude=mag, birth_by_origin=True))
                    else:
                        trs.append(Tr("B", destination=rng.choice(states), magnitude=mag))
                else:
                    trs.append(Tr("D", origin=rng.choice(states), magnitude=mag))
            events.append(Ev(rate(), trs))
        odes = []
        if rng.random() < 0.4 or not events:
            for _ in range(rng.randint(1, 2)):
                odes.append((rng.choice(states), rng.choice(pv) * rng.choice(sv) - rng.choice(sv) * rng.choice(sv)))
        out.append(ModelSpec("gen%d_%d" % (seed, idx), states, params, events, odes, derived))
    return out


# ---- catalogue models: an oracle read from the DEFINITION as given ---------------------------------
def from_string(src):
    """PyGOM equation string -> Expr, by Python's ast (never sympy): + - * / ** (integer exponent), unary minus,
    exp/log/sin/cos/sqrt, numeric literals, names ('pi' stays a name only if the model declares it)"""
    import ast
    tree = ast.parse(src.strip(), mode="eval").body

    def go(n):
        if isinstance(n, ast.BinOp):
            a, b = go(n.left), go(n.right)
            if isinstance(n.op, ast.Add):
                return Add(a, b)
            if isinstance(n.op, ast.Sub):
                return Add(a, Neg(b))
            if isinstance(n.op, ast.Mult):
                return Mul(a, b)
            if isinstance(n.op, ast.Div):
                return Div(a, b)
            if isinstance(n.op, ast.Pow):
                if isinstance(b, Const) and float(b.v).is_integer() and b.v >= 0:
                    return Pow(a, int(b.v))
                raise ValueError("non-integer power in %r" % src)
            raise ValueError("operator in %r" % src)
        if isinstance(n, ast.UnaryOp):
            if isinstance(n.op, ast.USub):
                return Neg(go(n.operand))
            if isinstance(n.op, ast.UAdd):
                return go(n.operand)
            raise ValueError("unary operator in %r" % src)
        if isinstance(n, ast.Constant):
            v = n.value
            return Const(v if isinstance(v, int) else fractions.Fraction(repr(v)) if isinstance(v, float) else v)
        if isinstance(n, ast.Name):
            return Var(n.id)
        if isinstance(n, ast.Call) and isinstance(n.func, ast.Name) and n.func.id in ("exp", "log", "sin", "cos", "sqrt") and len(n.args) == 1:
            return Fn(n.func.id, go(n.args[0]))
        raise ValueError("unsupported syntax in %r" % src)
    return go(tree)


CATALOGUE = ["SIS", "SIS_Periodic", "SIR", "SIR_norm", "SIR_Birth_Death", "SEIR", "SEIR_Birth_Death", "SEIR_Birth_Death_Periodic",
             "SEIR_Multiple", "Influenza_SLIARD", "Legrand_Ebola_SEIHFR", "Lotka_Volterra", "FitzHugh", "Lorenz", "vanDerPol", "Robertson"]


def catalogue_spec(name):
    """(ModelSpec, built model) for a model of pygom.model.common_models.  The ORACLE side is assembled by this
    module from the definition the model object stores as given (event list: rate string + transitions with
    origin/destination/type/magnitude; explicit ODE strings; derived-parameter strings), read with from_string;
    PyGOM's own assembly (get_ode_eqn, vMat, ...) is what gets compared against it."""
    from pygom.model import common_models, ode_utils
    m = getattr(common_models, name)()
    m._SC = ode_utils.compileCode(backend="lambda")
    states = [str(s_) for s_ in m.state_list]
    params = [str(p_) for p_ in m.param_list]
    events = []
    for ev_ in m.event_list:
        trs = []
        for t_ in ev_.transition_list:
            kind = t_.transition_type.name
            mag = from_string(str(t_._magnitude))
            if kind == "T":
                trs.append(Tr("T", str(t_.origin), str(t_.destination), magnitude=mag))
            elif kind == "B":
                if t_.destination is not None:
                    trs.append(Tr("B", destination=str(t_.destination), magnitude=mag))
                else:
                    trs.append(Tr("B", origin=str(t_.origin), magnitude=mag, birth_by_origin=True))
            elif kind == "D":
                trs.append(Tr("D", origin=str(t_.origin), magnitude=mag))
            else:
                raise ValueError("transition type %s inside an event" % kind)
        events.append(Ev(from_string(str(ev_.rate)), trs))
    odes = [(str(t_.origin), from_string(str(t_.equation))) for t_ in m.ode_list]
    derived = [(str(n_), from_string(str(e_))) for n_, e_ in (getattr(m, "_derivedParamEqn", None) or [])]
    sp = ModelSpec("catalogue_" + name, states, params, events, odes, derived)
    sp.model = m          # checks use this real object instead of building one from the spec
    return sp, m


_CAT = {}


def catalogue(name):
    if name not in _CAT:
        _CAT[name] = catalogue_spec(name)[0]
    return _CAT[name]
