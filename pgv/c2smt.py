"""The Cython back-end by translation of its intermediate representation.

PyGOM's default numeric back-end hands each sympy matrix to `sympy.utilities.autowrap.autowrap(backend='Cython')`,
which prints C (`wrapped_code_N.c`: `out[k] = <expr>;`), a Cython wrapper (`wrapper_module_N.pyx`) and builds a
shared object.  Here `ode_utils.autowrap` is wrapped (module-global lookup, no source change) so that the build
directory is kept; the generated C is parsed (regex for the statement structure, Python's `ast` for the C
expressions -- the subset sympy prints is valid Python syntax) and turned into z3 terms over the C argument
names.  The harness then compares those terms with the oracle for ALL argument values, and ties the shared
object that PyGOM actually calls to the translated C at concrete points.
"""
import ast
import contextlib
import fractions
import glob
import os
import re
import shutil
import tempfile

import numpy as np

from . import sym
from .sym import Sym

_FUNCS = {"exp": "exp", "log": "log", "sin": "sin", "cos": "cos", "sqrt": "sqrt"}


class Captured(object):
    def __init__(self, expr, args, tempdir, func):
        self.expr, self.args, self.tempdir, self.func = expr, args, tempdir, func
        self.c_path = None
        self.argnames = None
        self.shape = None
        self.rhs = None

    def parse(self):
        cs = sorted(glob.glob(os.path.join(self.tempdir, "wrapped_code_*.c")))
        ps = sorted(glob.glob(os.path.join(self.tempdir, "wrapper_module_*.pyx")))
        if not cs or not ps:
            return False
        self.c_path = cs[0]
        src = open(cs[0]).read()
        m = re.search(r"void\s+autofunc\s*\(([^)]*)\)\s*\{(.*)\}", src, re.S)
        if not m:
            return False
        params = [p.strip() for p in m.group(1).split(",")]
        self.argnames = [p.split()[-1] for p in params if p.startswith("double") and "*" not in p]
        outs = [p.split("*")[-1].strip() for p in params if "*" in p]
        if len(outs) != 1:
            return False
        out = outs[0]
        body = m.group(2)
        stm = re.findall(r"%s\[(\d+)\]\s*=\s*(.*?);" % re.escape(out), body, re.S)
        rhs = {}
        for k, e in stm:
            rhs[int(k)] = " ".join(e.split())
        pyx = open(ps[0]).read()
        sh = re.search(r"np\.empty\(\((\d+)\s*,\s*(\d+)\)\)", pyx)
        if not sh:
            return False
        self.shape = (int(sh.group(1)), int(sh.group(2)))
        n = self.shape[0] * self.shape[1]
        if sorted(rhs) != list(range(n)):
            return False
        self.rhs = [rhs[k] for k in range(n)]
        return True


def c_to_value(src, env, concrete=False):
    """C expression (sympy's printer subset) -> Sym (or float when concrete) under env: name -> value"""
    src = re.sub(r"(\d)[lL]\b", r"\1", src)          # long-double suffixes
    tree = ast.parse(src.strip(), mode="eval").body
    import math

    def ev(n):
        if isinstance(n, ast.BinOp):
            a, b = ev(n.left), ev(n.right)
            if isinstance(n.op, ast.Add):
                return a + b
            if isinstance(n.op, ast.Sub):
                return a - b
            if isinstance(n.op, ast.Mult):
                return a * b
            if isinstance(n.op, ast.Div):
                return a / b
            raise ValueError("operator %r" % n.op)
        if isinstance(n, ast.UnaryOp):
            v = ev(n.operand)
            if isinstance(n.op, ast.USub):
                return -v
            if isinstance(n.op, ast.UAdd):
                return v
            raise ValueError("unary %r" % n.op)
        if isinstance(n, ast.Constant):
            v = n.value
            if isinstance(v, int):
                return v if concrete else fractions.Fraction(v)
            return float(v) if concrete else fractions.Fraction(float(v))
        if isinstance(n, ast.Name):
            if n.id == "M_PI":
                return math.pi
            return env[n.id]
        if isinstance(n, ast.Call) and isinstance(n.func, ast.Name):
            f = n.func.id
            args = [ev(a) for a in n.args]
            if f == "pow":
                base, e = args
                if isinstance(e, (int, fractions.Fraction)) and fractions.Fraction(e).denominator == 1:
                    e = int(e)
                elif isinstance(e, fractions.Fraction):
                    e = float(e)
                return base ** e
            if f in _FUNCS:
                v = args[0]
                if isinstance(v, Sym):
                    return getattr(v, _FUNCS[f])()
                return getattr(math, f)(float(v))
            if f == "fabs":
                return abs(args[0])
            raise ValueError("function %s" % f)
        raise ValueError("node %r" % n)
    return ev(tree)


@contextlib.contextmanager
def capture_autowrap():
    """record every autowrap call PyGOM makes, keeping the generated sources"""
    from pygom.model import ode_utils
    real = ode_utils.autowrap
    root = tempfile.mkdtemp(prefix="pgv_c2smt_")
    calls = []

    def wrapped(expr=None, args=None, backend="f2py", **kw):
        d = os.path.join(root, "b%d" % len(calls))
        f = real(expr=expr, args=args, backend=backend, tempdir=d, **kw)
        calls.append(Captured(expr, args, d, f))
        return f
    ode_utils.autowrap = wrapped
    try:
        yield calls
    finally:
        ode_utils.autowrap = real
        shutil.rmtree(root, ignore_errors=True)
