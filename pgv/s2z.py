"""sympy expression -> proxy value, by symbol *name*; independent of lambdify."""
import fractions
import math
import sympy

from .sym import Sym, Abort


def s2z(e, env):
    if isinstance(e, sympy.Symbol):
        return env[e.name]
    if isinstance(e, sympy.Integer):
        return int(e)
    if isinstance(e, sympy.Rational):
        return fractions.Fraction(int(e.p), int(e.q))
    if isinstance(e, sympy.Float):
        return float(e)
    if e is sympy.pi:
        return math.pi
    if isinstance(e, sympy.Add):
        args = [s2z(a, env) for a in e.args]
        acc = args[0]
        for a in args[1:]:
            acc = acc + a
        return acc
    if isinstance(e, sympy.Mul):
        args = [s2z(a, env) for a in e.args]
        acc = args[0]
        for a in args[1:]:
            acc = acc * a
        return acc
    if isinstance(e, sympy.Pow):
        b, x = e.args
        bz = s2z(b, env)
        if isinstance(x, sympy.Integer):
            n = int(x)
            if n >= 0:
                return bz ** n
            return 1 / (bz ** (-n))
        if isinstance(x, sympy.Rational) and x.q == 2:
            r = bz.sqrt() if isinstance(bz, Sym) else math.sqrt(bz)
            n = int(x.p)
            return r ** n if n >= 0 else 1 / (r ** (-n))
        xz = s2z(x, env)
        return bz ** xz
    if isinstance(e, sympy.exp):
        a = s2z(e.args[0], env)
        return a.exp() if isinstance(a, Sym) else math.exp(a)
    if isinstance(e, sympy.log):
        a = s2z(e.args[0], env)
        return a.log() if isinstance(a, Sym) else math.log(a)
    if isinstance(e, sympy.sin):
        a = s2z(e.args[0], env)
        return a.sin() if isinstance(a, Sym) else math.sin(a)
    if isinstance(e, sympy.cos):
        a = s2z(e.args[0], env)
        return a.cos() if isinstance(a, Sym) else math.cos(a)
    raise Abort("sympy2smt: unsupported node %s" % type(e).__name__)


def smat(M, env):
    """sympy Matrix -> nested list of proxy values"""
    return [[s2z(M[i, j], env) for j in range(M.cols)] for i in range(M.rows)]
