"""C10 -- closed compartmental models conserve the total population."""
import numpy as np

from .. import sym, expr, s2z
from ..core import Check, Unit
from ..sym import all_close, close
from .stoch import zsum
from .c01 import sigma_specs, sigma_unit, chunks, built, point, bind, assembly_body
from .c04 import first_reaction_unit, tau_leap_unit, jump_unit


def conserve_extra(c, spec, m, res):
    f_sym, V_sym, p_sym, f_num = res
    nS, nE = len(spec.states), len(spec.events)
    c.prove(close(zsum(f_sym), 0, c), "sum of get_ode_eqn() is identically zero")
    c.prove(close(zsum(f_num), 0, c), "sum of ode(x,t) is identically zero")
    for j in range(nE):
        c.prove(close(zsum(V_sym[i][j] for i in range(nS)), 0, c), "state-change column %d sums to zero" % j)
    c.prove(all_close(p_sym, [0] * nS, c), "no explicit terms in a transition-only model")


def family_unit(spec):
    def h(c):
        m = built(spec)
        res = assembly_body(c, spec, m)
        conserve_extra(c, spec, m, res)
    return Unit("C10.family[%s]" % spec.name, h, bounds={"states": len(spec.states), "events": len(spec.events)}, program=spec.describe(), max_paths=10)


def t_only(spec):
    return not spec.odes and all(tr.kind == "T" for e in spec.events for tr in e.transitions) and spec.events


class C10(Check):
    id = "C10"
    level = "other"
    explanation = ("(a) every transition-only structure of k transitions over 3 states with FREE symbolic rates and magnitudes, grouped into "
                   "events in every way: z3 proves sum_i f_i == 0 (symbolic getter and numeric evaluator), zero column sums of V and zero "
                   "explicit terms, for all values; plus the transition-only members of the fixed/generated families.  (b) one symbolic "
                   "first-reaction / tau-leap step with an arbitrary zero-column-sum integer V and the real _jump loop on a transition-only "
                   "model: the total is unchanged exactly, for every draw, count and tau.  (c) deterministic trajectories: linear invariants "
                   "of f are preserved by scipy's integrators up to round-off (standard result, trusted) -- reduces to (a) + C02.")
    stubs = ["numpy global RNG streams", "_cy_test_tau_leap_safety contract", "transitionMean/Var havoc"]
    assumptions = ["numerical drift of the Fortran integrators is not decided", "floats as reals"]

    def units(self, tier, seed):
        us = []
        sig = sigma_specs(1, kinds=("T",), prefix=False) + sigma_specs(2, kinds=("T",), prefix=False)
        if tier != "quick":
            sig += sigma_specs(3, kinds=("T",), prefix=False)
        self.n_sigma = len(sig)
        for i, ch in enumerate(chunks(sig, 8 if tier == "quick" else 32)):
            us.append(sigma_unit(ch, i, extra=conserve_extra, tag="C10"))
        fam = [s for s in expr.F0() + expr.generate(seed, 60 if tier != "quick" else 25) if t_only(s)]
        fus = [family_unit(s) for s in fam]
        for u, s in zip(fus, fam):
            u.optional = s.name.startswith("gen")
        us += fus
        us.append(first_reaction_unit(3, 2, conserve=True, asserts=("walk", "conserve"), tag="C10"))
        us.append(tau_leap_unit(2, 2, True, conserve=True, asserts=("walk", "conserve"), tag="C10"))
        us.append(tau_leap_unit(2, 1, False, conserve=True, asserts=("walk", "conserve"), tag="C10"))
        us.append(jump_unit(expr.by_name("sir"), True, 2, asserts=("walk", "conserve"), tag="C10"))
        us.append(jump_unit(expr.by_name("xy_2s1e"), False, 2, asserts=("walk", "conserve"), tag="C10"))
        if tier != "quick":
            us.append(first_reaction_unit(3, 3, conserve=True, asserts=("walk", "conserve"), tag="C10"))
            us.append(tau_leap_unit(3, 2, False, conserve=True, asserts=("walk", "conserve"), tag="C10"))
            us.append(jump_unit(expr.by_name("sir"), False, 2, asserts=("walk", "conserve"), tag="C10", max_paths=20000))
            us.append(jump_unit(expr.by_name("sir_mag"), True, 2, asserts=("walk", "conserve"), tag="C10"))
        return us

    def extra(self, tier, seed):
        return {"sigma_structures": getattr(self, "n_sigma", 0)}, []


CHECK = C10()
