"""C10 -- closed compartmental models conserve the total population."""
import numpy as np

from .. import sym, expr, s2z
from ..core import Check, Unit
from ..sym import all_close, close
from .stoch import zsum
from .c01 import sigma_specs, sigma_unit, chunks, built, point, bind, assembly_body
from .c04 import first_reaction_unit, tau_leap_unit, jump_unit


def conserve_extra(c, spec, m, res):
    f_sym, V_sym, p_sym, f_num = res
    nS, nE = len(spec.states), len(spec.events)
    c.prove(close(zsum(f_sym), 0, c), "sum of get_ode_eqn() is identically zero")
    c.prove(close(zsum(f_num), 0, c), "sum of ode(x,t) is identically zero")
    for j in range(nE):
        c.prove(close(zsum(V_sym[i][j] for i in range(nS)), 0, c), "state-change column %d sums to zero" % j)
    c.prove(all_close(p_sym, [0] * nS, c), "no explicit terms in a transition-only model")


def family_unit(spec):
    def h(c):
        m = built(spec)
        res = assembly_body(c, spec, m)
        conserve_extra(c, spec, m, res)
    return Unit("C10.family[%s]" % spec.name, h, bounds={"states": len(spec.states), "events": len(spec.events)}, program=spec.describe(), max_paths=10)


def gridded_conserve_unit(path_kind, m_steps=2, n_grid=2):
    """gridded tau-leap output of a closed model: the real solve_stochast(exact=False) post-processing on a recorded path
    every row of which has the same total; every row reported on the requested grid must have that total too (linear
    interpolation preserves sums).  path_kind: 'sym' (arbitrary conserving path) | 'int64' / 'float64' (a concrete TYPED
    path array, as _jump returns it from integer / float initial values; times and grid stay symbolic)"""
    from pygom.model import simulate as simmod
    from .. import stubs
    from .c11 import interp_model
    from .c04 import shape_specs
    from .stoch import arr
    S = 3
    spec = [s_ for s_ in shape_specs() if s_.name == "shape_3x2"][0] if any(s_.name == "shape_3x2" for s_ in shape_specs()) else [s_ for s_ in shape_specs() if len(s_.states) == 3][0]

    def h(c):
        model = built(spec)
        t0 = c.real("t0")
        ts = [t0]
        for i in range(m_steps):
            ti = c.real("e%d" % i, lo=None)
            c.assume(ti > ts[-1])
            if c.mode != "sym":
                c.assume(ti - ts[-1] > 1e-3)
            ts.append(ti)
        if path_kind == "sym":
            X = [[(c.intreal("p%d_%d" % (i, s_), lo=0, hi=20) if i == 0 else c.real("p%d_%d" % (i, s_))) for s_ in range(S)] for i in range(m_steps + 1)]
            total = zsum(X[0])
            for row in X[1:]:
                c.assume(close(zsum(row), total, c))
            Xa = np.array(X, dtype=object if c.mode == "sym" else float)
        else:
            X = [[9, 1, 0], [7, 2, 1], [4, 3, 3], [2, 2, 6]][:m_steps + 1]
            total = 10
            Xa = np.array(X, dtype=np.int64 if path_kind == "int64" else np.float64)
        g = [t0]
        for k in range(1, n_grid + 1):
            gk = c.real("g%d" % k)
            c.assume(gk > g[-1])
            if c.mode != "sym":
                c.assume(gk - g[-1] > 1e-3)
            g.append(gk)
        Ja = np.array([[1, 0]] * m_steps)
        Ta = arr(c, ts) if c.mode == "sym" else np.array(ts, dtype=float)

        def fake_jump(finalT, exact=False, full_output=True, seed=None):
            dT = arr(c, [Ta[i + 1] - Ta[i] for i in range(m_steps)]) if c.mode == "sym" else np.diff(Ta)
            return Xa.copy(), Ja.copy(), Ta.copy(), dT
        patches = [(model, "_jump", fake_jump)]
        if c.mode == "sym":
            npx = stubs.NumpyObjProxy()
            npx.interp = interp_model(c)
            patches.append((simmod, "np", npx))
        x0 = Xa[0].copy()
        model.initial_values = (x0, t0 if c.mode == "sym" else np.float64(t0))
        if c.mode == "sym":
            model._x0 = x0
        with stubs.patched(*patches):
            simX, simJ, tout = model.solve_stochast(np.array(g, dtype=object if c.mode == "sym" else float), 1, exact=False, full_output=True)
        rows = simX[0]
        c.reachable("gridded tau-leap output produced")
        c.prove(len(rows) == n_grid + 1, "one row per requested time")
        for k in range(n_grid + 1):
            c.prove(close(zsum(list(rows[k])), total, c), "gridded tau-leap row %d has the total of the recorded path" % k)
    return Unit("C10.gridded_tau[path=%s,steps=%d,grid=%d]" % (path_kind, m_steps, n_grid), h,
                bounds={"states": S, "recorded_steps": m_steps, "grid_points": n_grid + 1, "path": path_kind, "np.interp": "piecewise-linear model with clamping"},
                max_paths=4000, tol=1e-9)


def t_only(spec):
    return not spec.odes and all(tr.kind == "T" for e in spec.events for tr in e.transitions) and spec.events


class C10(Check):
    id = "C10"
    level = "other"
    explanation = ("(a) every transition-only structure of k transitions over 3 states with FREE symbolic rates and magnitudes, grouped into "
                   "events in every way: z3 proves sum_i f_i == 0 (symbolic getter and numeric evaluator), zero column sums of V and zero "
                   "explicit terms, for all values; plus the transition-only members of the fixed/generated families.  (b) one symbolic "
                   "first-reaction / tau-leap step with an arbitrary zero-column-sum integer V and the real _jump loop on a transition-only "
                   "model: the total is unchanged exactly, for every draw, count and tau.  (c) deterministic trajectories: linear invariants "
                   "of f are preserved by scipy's integrators up to round-off (standard result, trusted) -- reduces to (a) + C02.  (d) gridded tau-leap "
                   "output: the real interpolation of a recorded path with constant total (symbolic, and typed int64/float64 path arrays) onto a "
                   "symbolic grid keeps that total in every reported row.")
    stubs = ["numpy global RNG streams", "_cy_test_tau_leap_safety contract", "transitionMean/Var havoc"]
    assumptions = ["numerical drift of the Fortran integrators is not decided", "floats as reals"]

    def units(self, tier, seed):
        us = []
        sig = sigma_specs(1, kinds=("T",), prefix=False) + sigma_specs(2, kinds=("T",), prefix=False)
        if tier != "quick":
            sig += sigma_specs(3, kinds=("T",), prefix=False)
        self.n_sigma = len(sig)
        for i, ch in enumerate(chunks(sig, 8 if tier == "quick" else 32)):
            us.append(sigma_unit(ch, i, extra=conserve_extra, tag="C10"))
        fam = [s for s in expr.F0() + expr.generate(seed, 60 if tier != "quick" else 25) if t_only(s)]
        fus = [family_unit(s) for s in fam]
        for u, s in zip(fus, fam):
            u.optional = s.name.startswith("gen")
        us += fus
        us.append(first_reaction_unit(3, 2, conserve=True, asserts=("walk", "conserve"), tag="C10"))
        us.append(tau_leap_unit(2, 2, True, conserve=True, asserts=("walk", "conserve"), tag="C10"))
        us.append(tau_leap_unit(2, 1, False, conserve=True, asserts=("walk", "conserve"), tag="C10"))
        us.append(jump_unit(expr.by_name("sir"), True, 2, asserts=("walk", "conserve"), tag="C10"))
        us.append(jump_unit(expr.by_name("xy_2s1e"), False, 2, asserts=("walk", "conserve"), tag="C10"))
        us.append(gridded_conserve_unit("sym"))
        us.append(gridded_conserve_unit("int64"))
        us.append(gridded_conserve_unit("float64"))
        if tier != "quick":
            us.append(first_reaction_unit(3, 3, conserve=True, asserts=("walk", "conserve"), tag="C10"))
            us.append(tau_leap_unit(3, 2, False, conserve=True, asserts=("walk", "conserve"), tag="C10"))
            us.append(jump_unit(expr.by_name("sir"), False, 2, asserts=("walk", "conserve"), tag="C10", max_paths=20000))
            us.append(jump_unit(expr.by_name("sir_mag"), True, 2, asserts=("walk", "conserve"), tag="C10"))
        return us

    def extra(self, tier, seed):
        return {"sigma_structures": getattr(self, "n_sigma", 0)}, []


CHECK = C10()
