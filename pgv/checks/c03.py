"""C03 -- Jacobian, gradient and higher derivative functions are the true derivatives."""
import numpy as np

from .. import sym, expr, s2z
from ..core import Check, Unit
from ..sym import all_close
from .c01 import built, point, bind, shape_of


def _cmp(c, got, ref, label, strict=False, shape=None):
    """compare a returned array with a reference nested list.  Matrix-valued evaluators (strict=True: rows = states or
    events, columns = states / parameters) must come back with exactly the documented 2-d shape, also when a
    dimension is 1 (one state, one parameter, one event); only the symbolic getters' flattened forms are re-shaped."""
    ref = np.array(ref, dtype=object)
    if shape is not None:
        ref = ref.reshape(shape)
    got = np.asarray(got, dtype=object)
    if got.shape != ref.shape:
        if not strict and 1 in ref.shape and got.shape == (ref.size,):
            ref = ref.ravel()
        else:
            c.prove(False, label + " [shape %s vs %s]" % (got.shape, ref.shape))
            return
    c.prove(all_close(got, ref, c), label)


def deriv_unit(spec):
    nS, nP, nE = len(spec.states), len(spec.params), len(spec.events)

    def h(c):
        m = built(spec)
        env, x, t, th = point(c, spec)
        bind(m, th)
        f = spec.rhs()
        X, P = spec.states, spec.params
        J = [[expr.d(f[i], X[j]) for j in range(nS)] for i in range(nS)]
        G = [[expr.d(f[i], P[k]) for k in range(nP)] for i in range(nS)]
        DJ = [[expr.d(expr.d(f[k], X[i]), X[j]) for j in range(nS)] for k in range(nS) for i in range(nS)]
        GJ = [[expr.d(G[i][k], X[j]) for j in range(nS)] for k in range(nP) for i in range(nS)]
        E = lambda M: [[expr.ev(e, env) for e in row] for row in M]
        J_ref, G_ref, DJ_ref, GJ_ref = E(J), E(G), E(DJ), E(GJ)
        # symbolic getters
        _cmp(c, np.array(s2z.smat(m.get_jacobian_eqn(), env), dtype=object).reshape(nS, nS), J_ref, "get_jacobian_eqn == dF/dx")
        _cmp(c, np.array(s2z.smat(m.get_diff_jacobian_eqn(), env), dtype=object).reshape(nS * nS, nS), DJ_ref, "get_diff_jacobian_eqn == d2F/dx2 (row k*nS+i)")
        if nP:
            _cmp(c, np.array(s2z.smat(m.get_grad_eqn(), env), dtype=object).reshape(nS, nP), G_ref, "get_grad_eqn == dF/dtheta")
            _cmp(c, np.array(s2z.smat(m.get_grad_jacobian_eqn(), env), dtype=object).reshape(nS * nP, nS), GJ_ref, "get_grad_jacobian_eqn == d2F/dtheta dx (row k*nS+i)")
        # numeric evaluators
        _cmp(c, m.jacobian(x, t), J_ref, "jacobian(x,t) == dF/dx", strict=True, shape=(nS, nS))
        _cmp(c, m.diff_jacobian(x, t), DJ_ref, "diff_jacobian(x,t) == d2F/dx2", strict=True, shape=(nS * nS, nS))
        if nP:
            _cmp(c, m.grad(x, t), G_ref, "grad(x,t) == dF/dtheta", strict=True, shape=(nS, nP))
            _cmp(c, m.grad_jacobian(x, t), GJ_ref, "grad_jacobian(x,t) == d2F/dtheta dx", strict=True, shape=(nS * nP, nS))
        if nE:
            a = spec.rates()
            V = spec.V()
            Fm = []
            for i in range(nE):
                row = []
                for j in range(nE):
                    acc = expr.ZERO
                    for s in range(nS):
                        acc = expr._add(acc, expr._mul(expr.d(a[i], X[s]), V[s][j]))
                    row.append(acc)
                Fm.append(row)
            F_ref = E(Fm)
            a_ref = [expr.ev(e, env) for e in a]
            mu_ref = [sum(F_ref[i][j] * a_ref[j] for j in range(nE)) for i in range(nE)]
            var_ref = [sum(F_ref[i][j] * F_ref[i][j] * a_ref[j] for j in range(nE)) for i in range(nE)]
            _cmp(c, m.transitionJacobian(x, t), F_ref, "transitionJacobian == sum_s da_i/dx_s V[s,j]")
            _cmp(c, m.transitionMean(x, t), mu_ref, "transitionMean == sum_j F_ij a_j")
            _cmp(c, m.transitionVar(x, t), var_ref, "transitionVar == sum_j F_ij^2 a_j")
    return Unit("derivatives[%s]" % spec.name, h, bounds={"states": nS, "params": nP, "events": nE},
                program=spec.describe(), max_paths=50)


class C03(Check):
    id = "C03"
    level = "translation_validation"
    explanation = ("Per model definition the four derivative getters (sympy -> SMT) and the seven compiled derivative/rate-change "
                   "evaluators (real code on z3-backed numbers) are compared entry by entry, in the documented layout, with derivatives "
                   "produced by an independent differentiator applied to the oracle right-hand side; z3 proves equality for all (x,t,theta) "
                   "away from zeros of denominators.  Asymmetric (states, params) sizes so that a transposed or mis-strided layout cannot hide.")
    assumptions = ["floats as reals; denominators non-zero", "exp/log/sin/cos as uninterpreted functions with solver-proved law instances",
                   "the four derivative evaluators (jacobian, grad, diff_jacobian, grad_jacobian) must have exactly the documented 2-d shape (also with one state or one parameter); the rate-change statistics may come back raveled when a dimension is 1 (values compared in order); "
                   "only the symbolic getters' sympy matrices are re-shaped before the comparison"]

    def units(self, tier, seed):
        fam = expr.F0()
        if tier == "quick":
            fam = [m for m in fam if m.name in expr.F0_QUICK] + expr.generate(seed, 3)
        else:
            fam += expr.generate(seed, 30)
        us = [deriv_unit(s) for s in fam]
        for u, s in zip(us, fam):
            u.optional = s.name.startswith("gen")
        cat = ["SIR_Birth_Death", "Lotka_Volterra", "FitzHugh"] if tier == "quick" else \
            [n for n in expr.CATALOGUE if n not in ("SEIR_Multiple", "Legrand_Ebola_SEIHFR")]
        for nm in cat:
            u = deriv_unit(expr.catalogue(nm))
            u.optional = True      # large catalogue models: an undecided second-derivative identity leaves the claim
            us.append(u)
        return us


CHECK = C03()
