"""C07 -- the gradient handed to optimisers is the derivative of cost."""
import numpy as np

from .. import sym, stubs, expr
from ..core import Check, Unit
from ..sym import Sym, all_close, close, near, all_near
from .stoch import zsum, arr
from .c14 import ref_nll
from .c06 import (build_loss, ref_cost, loss_patches, last_flow, check_binding, ref_solution, STATES, PARAMS,
                  SELECTIONS, TARGETS)

NS, NP = 3, 2


def fd_gradient(L, x0_used, free_names, free_x0, h=1e-6):
    """replay oracle: central finite differences of the REFERENCE cost (tight-tolerance reference solution)"""
    def cost_at(bound, x0):
        rows = ref_solution([bound["beta"], bound["gamma"]], x0, L.t0, L.t)
        tot = 0.0
        for i in range(L.n):
            for j, k in enumerate(L.idx):
                env = {"y": L.y[i][j], "yh": rows[i][k], "w": L.w[i][j], "sp": L.sp[i][j]}
                tot += expr.ev(ref_nll(L.kind, expr.Var("y"), expr.Var("yh"), expr.Var("sp"), expr.Var("w")), env)
        return tot
    g = []
    for nm in free_names:
        bp, bm = dict(L.bound), dict(L.bound)
        bp[nm] += h
        bm[nm] -= h
        g.append((cost_at(bp, x0_used) - cost_at(bm, x0_used)) / (2 * h))
    for s in free_x0:
        xp, xm = list(x0_used), list(x0_used)
        xp[STATES.index(s)] += h
        xm[STATES.index(s)] -= h
        g.append((cost_at(L.bound, xp) - cost_at(L.bound, xm)) / (2 * h))
    return g


def grad_unit(kind, sel, tp, n, weighted=False, spread_form="scalar", entry="sensitivity", ts_sel=None, full_output=False, time_kind="sym", y_kind="sym", pre_iv=False, x0_kind="sym"):
    """pre_iv: the object has target_state and an initial-value evaluation (costIV at other parameter values and other
    initial values) comes first; that call moves the object's initial state, and the fixed-initial-value gradient that
    follows must be the derivative of the cost the object computes NOW (from the moved state)"""
    iv = entry == "sensitivityIV"

    def h(c):
        free_names = list(tp) if tp is not None else list(PARAMS)
        free_x0 = (list(ts_sel) if ts_sel is not None else list(STATES)) if iv else []
        if c.mode == "sym":
            with stubs.integrator_stubs(c, eig="fixed") as book, stubs.patched(*loss_patches(c)):
                L = build_loss(c, kind, sel, tp, ts_sel, n, weighted, spread_form, time_kind, y_kind, x0_kind)
                x0_used = list(L.x0)
                if iv:
                    L.x0_free = [c.real("iv_%s" % s, lo=1, hi=10) for s in free_x0] if x0_kind == "sym" else [3.25 + 1.5 * k_ for k_ in range(len(free_x0))]
                    for s, v in zip(free_x0, L.x0_free):
                        x0_used[STATES.index(s)] = v
                    arg = arr(c, list(L.theta) + L.x0_free)
                    out = L.obj.sensitivityIV(arg, full_output=full_output)
                else:
                    if pre_iv:
                        moved = [c.real("pre_iv_%s" % s, lo=1, hi=10) for s in ts_sel]
                        th_pre = [c.real("pre_th_%d" % k_, lo=0.1, hi=3) for k_ in range(len(L.theta))]
                        L.obj.costIV(arr(c, th_pre + moved))
                        for s, v in zip(ts_sel, moved):
                            x0_used[STATES.index(s)] = v
                    if entry == "gradient":
                        out = L.obj.gradient(L.theta_arg, full_output=full_output)
                    else:
                        out = L.obj.sensitivity(L.theta_arg, full_output=full_output)
                g = out[0] if full_output else out
                integ, fl = last_flow(book)
                if not full_output:
                    check_binding(c, L, book, integ, x0_used)
                else:
                    fl = book.integrators[0]._flow if False else fl
                rows = [book.at(book.integrators[-1]._flow if not full_output else _first_flow_of_call(book, x0_used, c), ti) for ti in L.t]
            yhat = [[rows[i][k] for k in L.idx] for i in range(L.n)]
            _, terms = ref_cost(c, L, yhat)
            ref = []
            for nm in free_names:
                kpar = PARAMS.index(nm)
                acc = 0
                for i in range(L.n):
                    for j, s in enumerate(L.idx):
                        e, env = terms[(i, j)]
                        acc = acc + expr.ev(expr.d(e, "yh"), env) * rows[i][NS + kpar * NS + s]
                ref.append(acc)
            for snm in free_x0:
                l = STATES.index(snm)
                acc = 0
                for i in range(L.n):
                    for j, s in enumerate(L.idx):
                        e, env = terms[(i, j)]
                        acc = acc + expr.ev(expr.d(e, "yh"), env) * rows[i][NS + NS * NP + l * NS + s]
                ref.append(acc)
        else:
            L = build_loss(c, kind, sel, tp, ts_sel, n, weighted, spread_form, time_kind, y_kind, x0_kind)
            x0_used = [float(v) for v in L.x0]
            if iv:
                L.x0_free = [c.real("iv_%s" % s, lo=1, hi=10) for s in free_x0] if x0_kind == "sym" else [3.25 + 1.5 * k_ for k_ in range(len(free_x0))]
                for s, v in zip(free_x0, L.x0_free):
                    x0_used[STATES.index(s)] = v
                out = L.obj.sensitivityIV(np.array(list(L.theta) + L.x0_free), full_output=full_output)
            else:
                if pre_iv:
                    moved = [c.real("pre_iv_%s" % s, lo=1, hi=10) for s in ts_sel]
                    th_pre = [c.real("pre_th_%d" % k_, lo=0.1, hi=3) for k_ in range(len(L.theta))]
                    L.obj.costIV(np.array([float(v) for v in th_pre + moved]))
                    for s, v in zip(ts_sel, moved):
                        x0_used[STATES.index(s)] = float(v)
                if entry == "gradient":
                    out = L.obj.gradient(L.theta_arg, full_output=full_output)
                else:
                    out = L.obj.sensitivity(L.theta_arg, full_output=full_output)
            g = out[0] if full_output else out
            ref = fd_gradient(L, x0_used, free_names, free_x0)
        c.reachable("gradient evaluated")
        from .c06 import check_purity
        check_purity(c, L)
        g = np.asarray(g, dtype=object).ravel()
        c.prove(len(g) == len(ref), "one gradient entry per free variable")
        if len(g) == len(ref):
            for k_, nm in enumerate(free_names + ["x0:" + s for s in free_x0]):
                c.prove(near(g[k_], ref[k_], c, tol=2e-4), "gradient[%d] == d cost / d %s (free variables in the order supplied)" % (k_, nm))
    return Unit("C07.%s[%s,states=%s,target=%s,n=%d,w=%s,spread=%s,ts=%s,full=%s%s]" % (
        entry, kind, "+".join(sel), "all" if tp is None else "+".join(tp), n, weighted, spread_form, ts_sel, full_output,
        ("" if time_kind == "sym" else ",times=" + time_kind) + ("" if y_kind == "sym" else ",y=" + y_kind) + (",after_costIV" if pre_iv else "") + ("" if x0_kind == "sym" else ",x0=" + x0_kind)), h,
        bounds={"model": "S,J,R / beta,gamma", "times": n, "time_inputs": "symbolic reals" if time_kind == "sym" else "concrete %s 1..n with t0=0.5" % time_kind, "observed_states": list(sel), "target_param": tp, "target_state": ts_sel,
                "weights": "symbolic" if weighted else "unit", "spread": spread_form},
        program={"loss": kind, "sel": list(sel), "tp": tp, "ts": ts_sel}, tol=2e-4, max_paths=400)


def _first_flow_of_call(book, x0_used, c):
    """full_output=True re-creates the integrator at every step (continuing the same flow): the flow is
    the one started from the augmented initial value"""
    for ig in book.integrators:
        y0 = np.asarray(ig._y0, dtype=object).ravel()
        if len(y0) > NS:
            return ig._flow
    return book.integrators[-1]._flow


class C07(Check):
    id = "C07"
    level = "other"
    explanation = ("The real sensitivity/gradient/jac and sensitivityIV/jacIV, the index builders and sens_to_grad run on symbolic data, weights, "
                   "spread, theta and x0 with the augmented system's solution as uninterpreted flow components [X_i(t), S_{i,k}(t), S0_{i,l}(t)] "
                   "(documented Fortran-order layout).  The oracle is the chain rule sum_{i,j} dL/dyhat_ij * S_{state_j,k}(t_i) assembled from the "
                   "reference loss (own differentiator) for the free parameters IN THE ORDER SUPPLIED, then the free initial values; z3 proves "
                   "equality entry by entry for all values.  Replays use central finite differences of the reference cost on a tight-tolerance "
                   "reference solution against the real integrators.  Call histories on one object (an initial-value evaluation elsewhere first) and typed "
                   "initial values (Python ints / int64): the integration must start from the object's CURRENT initial state.")
    stubs = ["scipy.integrate.ode contract; augmented flow components uninterpreted", "np.linalg.eig fixed", "poisson.logpmf closed form; gammaln UF"]
    assumptions = ["integrated sensitivities equal dx/dtheta (ODE theory + C13)", "non-unit weights only for Square and Normal (whose cost uses them)",
                   "floats as reals"]

    def units(self, tier, seed):
        us = []
        sels = SELECTIONS if tier != "quick" else [("S",), ("J", "S"), ("R", "J"), ("R", "S", "J")]
        tgts = TARGETS if tier != "quick" else [None, ("gamma", "beta"), ("gamma",)]
        for sel in sels:
            for tp in tgts:
                us.append(grad_unit("Square", sel, tp, 2, weighted=(len(sel) == 2)))
        k = 0
        for kind in ("Normal", "Poisson", "Gamma", "NegBinom"):
            for sel in [("S",), ("R", "J")]:
                us.append(grad_unit(kind, sel, [None, ("gamma", "beta")][k % 2], 2, weighted=(kind == "Normal"),
                                    spread_form=["scalar", "per_state", "full"][k % 3] if kind != "Poisson" else "scalar"))
                k += 1
        us.append(grad_unit("Square", ("J", "S"), None, 2, entry="gradient"))
        us.append(grad_unit("Square", ("S", "R"), ("gamma", "beta"), 2, entry="sensitivity", full_output=True))
        us.append(grad_unit("Square", ("J", "S"), None, 2, entry="sensitivityIV"))
        us.append(grad_unit("Square", ("S",), ("gamma",), 2, entry="sensitivityIV", ts_sel=("R", "S")))
        us.append(grad_unit("Normal", ("R", "J"), ("gamma", "beta"), 2, entry="sensitivityIV", ts_sel=("J",), weighted=True))
        # typed time inputs: integer observation times with a fractional initial time
        us.append(grad_unit("Square", ("J", "S"), None, 2, time_kind="int_array"))
        us.append(grad_unit("Square", ("S",), ("gamma",), 2, entry="sensitivityIV", ts_sel=("R",), time_kind="int_list"))
        us.append(grad_unit("Normal", ("R",), None, 3, entry="sensitivity", full_output=True, time_kind="int_array"))
        # typed observations (int64 arrays)
        for kind, sf in (("Square", "scalar"), ("Poisson", "scalar"), ("NegBinom", "per_state"), ("Gamma", "scalar"), ("Normal", "full")):
            us.append(grad_unit(kind, ("R", "J"), ("gamma", "beta"), 2, spread_form=sf, y_kind="int64"))
        # every accepted weight form (per-state vector, single scalar), n != p
        us.append(grad_unit("Square", ("R", "J"), None, 3, weighted="per_state"))
        us.append(grad_unit("Normal", ("J", "S"), ("gamma", "beta"), 3, weighted="per_state", spread_form="per_state"))
        us.append(grad_unit("Square", ("S", "R"), None, 3, weighted="scalar", entry="sensitivityIV", ts_sel=("J",)))
        # typed initial values (Python ints / int64 array) with inferred initial values
        us.append(grad_unit("Square", ("J",), None, 2, entry="sensitivityIV", ts_sel=("J",), x0_kind="int_list"))
        us.append(grad_unit("Square", ("R", "J"), ("gamma",), 2, entry="sensitivityIV", ts_sel=("S", "R"), x0_kind="int64"))
        # call histories on one object: an initial-value evaluation first (it moves the object's initial state)
        us.append(grad_unit("Square", ("J", "R"), ("beta", "gamma"), 2, entry="gradient", ts_sel=("J",), pre_iv=True))
        us.append(grad_unit("Normal", ("S",), ("gamma",), 2, entry="sensitivity", ts_sel=("R", "S"), pre_iv=True))
        if tier != "quick":
            for kind in ("Normal", "Poisson", "Gamma", "NegBinom"):
                for sel in [("J", "S"), ("R", "S", "J")]:
                    us.append(grad_unit(kind, sel, ("gamma", "beta"), 3, spread_form="full" if kind != "Poisson" else "scalar"))
            us.append(grad_unit("Square", ("R", "S", "J"), ("gamma", "beta"), 2, entry="sensitivityIV", ts_sel=("R", "S", "J"), full_output=True))
        return us


CHECK = C07()
