"""C14 -- loss kernels are the negative log-likelihoods they are named after."""
import math
import numpy as np

from .. import sym, stubs, expr
from ..core import Check, Unit
from ..sym import Sym, all_close, close, near, all_near
from .stoch import zsum, arr

KINDS = ["Square", "Normal", "Poisson", "Gamma", "NegBinom"]


def ref_nll(kind, y, yh, sp, w):
    """reference negative log density of ONE observation, standard parameterisation, as an Expr"""
    E = expr
    if kind == "Square":
        return (w * (y - yh)) ** 2
    if kind == "Normal":          # N(mean=yh, sd=sp)
        return E.Const(0.5 * math.log(2 * math.pi)) + E.log(sp) + ((w * (y - yh)) ** 2) / (2 * sp ** 2)
    if kind == "Poisson":         # Poisson(mean=yh)
        return -(y * E.log(yh) - yh - E.lgamma(y + 1))
    if kind == "Gamma":           # Gamma(shape=a, scale=theta), theta = yh/a
        a = sp
        theta = yh / a
        return -((a - 1) * E.log(y) - y / theta - a * E.log(theta) - E.lgamma(a))
    if kind == "NegBinom":        # NB(n=k, p=k/(k+yh))
        k = sp
        p = k / (k + yh)
        return -(E.lgamma(y + k) - E.lgamma(k) - E.lgamma(y + 1) + k * E.log(p) + y * E.log(1 - p))
    raise ValueError(kind)


def make_loss(kind, y, w, sp):
    from pygom.loss import loss_type as lt
    if kind == "Square":
        return lt.Square(y, w)
    if kind == "Normal":
        return lt.Normal(y, w, sp)
    if kind == "Poisson":
        return lt.Poisson(y, w)
    if kind == "Gamma":
        return lt.Gamma(y, w, sp)
    return lt.NegBinom(y, w, sp)


def stats_patches(c):
    from pygom.utilR import distn
    if c.mode != "sym":
        return []
    st = stubs.StatsStub(c)
    return [(distn, "st", st), (distn, "gammaln", stubs.stub_gammaln)], st


def kernel_unit(kind, n, col, spread_form, weighted):
    from pygom.utilR import distn

    def h(c):
        count = kind in ("Poisson", "NegBinom")
        y = arr(c, [c.intreal("y%d" % i, lo=1, hi=40) if count else c.real("y%d" % i, lo=0.1, hi=40) for i in range(n)])
        yh = arr(c, [c.real("yh%d" % i, lo=0.1, hi=40) for i in range(n)])
        if weighted:
            w = arr(c, [c.real("w%d" % i, lo=0.1, hi=3) for i in range(n)])
        else:
            w = np.ones(n)
        sp = None
        if kind in ("Normal", "Gamma", "NegBinom"):
            if spread_form == "vector":
                sp = arr(c, [c.real("sp%d" % i, lo=0.2, hi=5) for i in range(n)])
            else:
                s0 = c.real("sp", lo=0.2, hi=5)
                sp = arr(c, [s0] * n)
        yh_in = yh.reshape(n, 1) if col else yh
        names = {}
        env = {}
        for i in range(n):
            env["y%d" % i], env["yh%d" % i], env["w%d" % i] = y[i], yh[i], w[i]
            if sp is not None:
                env["sp%d" % i] = sp[i]
        V = expr.Var
        refs = [ref_nll(kind, V("y%d" % i), V("yh%d" % i), V("sp%d" % i), V("w%d" % i)) for i in range(n)]
        patches, st = stats_patches(c) if c.mode == "sym" else ([], None)
        with stubs.patched(*patches):
            L = make_loss(kind, y, w if weighted else None, sp)
            loss = L.loss(yh_in)
            d1 = L.diff_loss(yh_in, apply_weighting=False) if not weighted else None
            d2 = L.diff2Loss(yh_in, apply_weighting=False) if not weighted else None
            res = L.residual(yh_in)
            # what a kernel hands back is the caller's to modify (a Gauss-Newton step scales the curvature in place):
            # keep the values, overwrite the returned arrays, and ask again
            again = None
            if not weighted:
                kept = [v.copy() if isinstance(v, np.ndarray) else v for v in (d1, d2, res)]
                for v in (d1, d2, res):
                    if isinstance(v, np.ndarray) and v.flags.writeable and v.ndim > 0:
                        v[...] = 7.0
                again = (L.loss(yh_in), L.diff_loss(yh_in, apply_weighting=False), L.diff2Loss(yh_in, apply_weighting=False), L.residual(yh_in))
                d1, d2, res = kept
        ref_total = zsum(expr.ev(r, env) for r in refs)
        c.prove(near(loss, ref_total, c, tol=1e-7), "%s loss == minus summed reference log density" % kind if kind != "Square" else "Square loss == sum of squared weighted residuals")
        c.prove(all_close(np.asarray(res, dtype=object).ravel(), [(y[i] - yh[i]) * w[i] for i in range(n)], c), "residual == (y - yhat) * weight")
        if kind == "Poisson" and st is not None:
            ok = all(cl[0] == "poisson" and cl[1] == "logpmf" for cl in st.calls) and len(st.calls) >= 1
            c.prove(ok, "Poisson loss evaluates scipy's poisson.logpmf")
            last = st.calls[-1]
            c.prove(all_close(np.asarray(last[2], dtype=object).ravel(), list(y), c) and all_close(np.asarray(last[3]["mu"], dtype=object).ravel(), list(yh), c),
                    "logpmf is called with x = observations and mu = predictions")
        if not weighted:
            d1r = [expr.ev(expr.d(refs[i], "yh%d" % i), env) for i in range(n)]
            d2r = [expr.ev(expr.d(expr.d(refs[i], "yh%d" % i), "yh%d" % i), env) for i in range(n)]
            c.prove(all_near(np.asarray(d1, dtype=object).ravel(), d1r, c, tol=1e-7), "diff_loss == d loss / d yhat_i")
            c.prove(all_near(np.asarray(d2, dtype=object).ravel(), d2r, c, tol=1e-7), "diff2Loss == d2 loss / d yhat_i^2")
            c.prove(np.asarray(d1, dtype=object).ravel().shape == (n,) and np.asarray(d2, dtype=object).ravel().shape == (n,), "derivative arrays have one entry per observation")
            l_b, d1_b, d2_b, res_b = again
            c.prove(near(l_b, ref_total, c, tol=1e-7) and all_near(np.asarray(d1_b, dtype=object).ravel(), d1r, c, tol=1e-7)
                    and all_near(np.asarray(d2_b, dtype=object).ravel(), d2r, c, tol=1e-7)
                    and all_close(np.asarray(res_b, dtype=object).ravel(), [(y[i] - yh[i]) * w[i] for i in range(n)], c),
                    "loss, diff_loss, diff2Loss and residual are unchanged after the caller overwrote the arrays returned by the previous calls")
    return Unit("C14.%s[n=%d,col=%s,spread=%s,weighted=%s]" % (kind, n, col, spread_form, weighted), h,
                bounds={"observations": n, "single_column_input": col, "spread": spread_form, "weights": "symbolic" if weighted else "unit",
                        "ranges": "y,yhat in [0.1,40] (integers >= 1 for counts), spread in [0.2,5]",
                        "float_stress_points": "observations x50; predictions x50; observations x1000 with predictions /20; observations x1000; predictions 1e-10 / 1e-9..1e-12"}, tol=1e-6, max_paths=200,
                stress={"scales": [{"y": 50.0}, {"yh": 50.0}, {"y": 1000.0, "yh": 0.05}, {"y": 1000.0}],
                        # boundary points of the prediction's domain: strictly positive but tiny means (prevalence as a
                        # fraction of a national population), far below the symbolic range
                        "points": [{"yh0": 1e-10}, dict(("yh%d" % i_, 10.0 ** (-9 - i_)) for i_ in range(n))],
                        "points_only": ["loss == minus summed reference log density", "Square loss =="]} if not weighted else None)


def typed_unit(kind, ydtype, spread):
    """TYPED inputs (a dtype or a Python scalar type is not a real number, so it is enumerated concretely):
    observations as an integer / float ndarray, spread as a Python scalar (int, float) or left to its default;
    predictions stay symbolic."""
    yvals = [3, 1, 4]
    n = len(yvals)
    default = {"Normal": 1.0, "Gamma": 2.0, "NegBinom": 1.0}

    def h(c):
        y = np.array(yvals, dtype=ydtype)
        yh = arr(c, [c.real("yh%d" % i, lo=0.1, hi=40) for i in range(n)])
        spv = spread if spread is not None else default.get(kind)
        env = {}
        for i in range(n):
            env["y%d" % i], env["yh%d" % i], env["w%d" % i], env["sp%d" % i] = float(yvals[i]), yh[i], 1.0, (float(spv) if spv is not None else None)
        V = expr.Var
        refs = [ref_nll(kind, V("y%d" % i), V("yh%d" % i), V("sp%d" % i), V("w%d" % i)) for i in range(n)]
        patches, st = stats_patches(c) if c.mode == "sym" else ([], None)
        with stubs.patched(*patches):
            if kind in ("Square", "Poisson"):
                L = make_loss(kind, y, None, None)
            elif spread is None:
                from pygom.loss import loss_type as lt
                L = {"Normal": lt.Normal, "Gamma": lt.Gamma, "NegBinom": lt.NegBinom}[kind](y)
            else:
                L = make_loss(kind, y, None, spread)
            loss = L.loss(yh)
            d1 = L.diff_loss(yh, apply_weighting=False)
            d2 = L.diff2Loss(yh, apply_weighting=False)
        ref_total = zsum(expr.ev(r, env) for r in refs)
        c.prove(near(loss, ref_total, c, eps=1e-8, tol=1e-7), "%s loss == minus summed reference log density (typed inputs)" % kind)
        d1r = [expr.ev(expr.d(refs[i], "yh%d" % i), env) for i in range(n)]
        d2r = [expr.ev(expr.d(expr.d(refs[i], "yh%d" % i), "yh%d" % i), env) for i in range(n)]
        c.prove(all_near(np.asarray(d1, dtype=object).ravel(), d1r, c, eps=1e-8, tol=1e-7), "diff_loss == d loss / d yhat_i (typed inputs)")
        c.prove(all_near(np.asarray(d2, dtype=object).ravel(), d2r, c, eps=1e-8, tol=1e-7), "diff2Loss == d2 loss / d yhat_i^2 (typed inputs)")
    return Unit("C14.typed[%s,y=%s,spread=%r]" % (kind, np.dtype(ydtype).name, spread), h,
                bounds={"observations": yvals, "y_dtype": np.dtype(ydtype).name, "spread": "python %s %r" % (type(spread).__name__, spread),
                        "predictions": "symbolic in [0.1,40]"}, tol=1e-6, max_paths=200)


class C14(Check):
    id = "C14"
    level = "translation_validation"
    explanation = ("The real loss/diff_loss/diff2Loss/residual of the five kernels (and gamma_mu_shape, nb2pmf, dnbinom, dpois under them) run on "
                   "symbolic y, yhat, spread and weights; the result is compared by z3 with reference log densities written in the STANDARD "
                   "parameterisation (Normal(mu,sigma); Poisson(mu); Gamma(shape a, scale mu/a); NegBin(n=k, p=k/(k+mu))) and with derivatives "
                   "obtained by an independent differentiator from those references.  log/lgamma are uninterpreted with solver-proved law "
                   "instances (e.g. log(k/(k+mu)) = log k - log(k+mu)); float constants within 1e-9.  Typed units: int64/float64 observation arrays with "
                   "Python-scalar (int, float, default) spread.  Outside the real-arithmetic claim, the fidelity pass also evaluates the real code at "
                   "float stress points (observations x1000, predictions /20) against the reference log-density.  The arrays a kernel returns are overwritten "
                   "by the harness before the next call: loss, diff_loss, diff2Loss and residual must be unaffected.  Boundary points: the loss VALUE at tiny positive predictions (1e-9..1e-12).")
    stubs = ["scipy.stats.poisson.logpmf -> closed form y log mu - mu - lgamma(y+1) (argument roles asserted)", "scipy.special.gammaln -> lgamma UF"]
    assumptions = ["valid domain: y, yhat > 0 (integer y for count losses), spread > 0", "Normal/Square use the weights inside the residual; density identities are with unit weights",
                   "floats as reals"]

    def units(self, tier, seed):
        us = []
        for kind in KINDS:
            forms = ["scalar", "vector"] if kind in ("Normal", "Gamma", "NegBinom") else ["none"]
            for sf in forms:
                us.append(kernel_unit(kind, 2, False, sf, False))
            us.append(kernel_unit(kind, 3 if tier != "quick" else 2, True, forms[-1], False))
            us.append(kernel_unit(kind, 1, False, forms[0], False))
            if kind in ("Square", "Normal"):
                us.append(kernel_unit(kind, 2, False, forms[0], True))
        # typed inputs: integer / float observation arrays with Python-scalar spread (fractional, integral, default)
        for kind in ("Normal", "Gamma", "NegBinom"):
            us.append(typed_unit(kind, np.int64, 2.5 if kind != "NegBinom" else 1.5))
            us.append(typed_unit(kind, np.float64, None))
            if tier != "quick":
                us.append(typed_unit(kind, np.int64, 3))
                us.append(typed_unit(kind, np.float64, 0.5))
                us.append(typed_unit(kind, np.int64, None))
        us.append(typed_unit("Poisson", np.int64, None))
        us.append(typed_unit("Square", np.int64, None))
        return us


CHECK = C14()
