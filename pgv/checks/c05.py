"""C05 -- exact simulation samples the CTMC's law, decided as a functional characterisation:
the first-reaction step is the map (E_1..E_n) -> (argmin_j E_j/r_j, min_j E_j/r_j) over the
positive-rate events, each unit-exponential draw used once for its own event."""
import sys
import types

import numpy as np

from ..core import Check, Unit
from .c04 import first_reaction_unit, jump_unit, shape_specs
from .stoch import arr, make_stream, global_rng, conj
from .. import expr, stubs, sym
from ..sym import all_close, close


def dask_stub():
    """dask.bag by its sequential contract: from_sequence(seq).map(f).compute() == [f(v) for v in seq]"""
    class Bag(object):
        def __init__(self, seq):
            self.seq = list(seq)

        def map(self, f, *a, **k):
            return Bag([f(v, *a, **k) for v in self.seq])

        def starmap(self, f, **k):
            return Bag([f(*v, **k) for v in self.seq])

        def compute(self, **k):
            return list(self.seq)
    bag = types.ModuleType("dask.bag")
    bag.from_sequence = lambda seq, **k: Bag(seq)
    dask = types.ModuleType("dask")
    dask.bag = bag
    return dask, bag


def parallel_unit(K=2):
    """solve_stochast(exact=True, parallel=True): each iteration must still run the first-reaction map on
    INDEPENDENT clocks -- whatever generator the parallel branch hands to the stepping code"""
    from pygom.model import simulate as simmod
    from pygom.model import stochastic_simulation as ss
    from pygom.utilR import distn
    from .c01 import built
    spec = [s_ for s_ in shape_specs() if s_.name == "shape_1x2"][0]

    def h(c):
        m = built(spec)
        th = [c.real("th_" + p, lo=0, lo_strict=True) for p in spec.params]
        m.parameters = th
        m._stochasticParam = None
        x0 = arr(c, [c.intreal("x0", lo=1, hi=4)])
        t0 = c.real("t0")
        T = c.real("T")
        c.assume(T > t0)
        m.initial_values = (x0, t0) if c.mode == "sym" else (np.array(x0, float), np.float64(t0))
        if c.mode == "sym":
            m._x0 = x0
        m._state_lims = [(0, None)]
        streams = []
        counter = {"n": 0}

        def new_stream(tag):
            st = make_stream(c, tag)
            streams.append(st)
            return st

        class RS(object):
            """np.random.RandomState: seed=None -> fresh entropy; integer seed -> the stream that seed determines
            (a NEW generator object positioned at its start, as numpy does)"""
            def __new__(cls, seed=None):
                counter["n"] += 1
                if seed is None:
                    return new_stream("fresh%d" % counter["n"])
                return new_stream("seed[%s]" % (seed,))
        glob = new_stream("g")
        glob.randint = lambda low, high=None, size=None, **k: np.array([1000 + i for i in range(int(size or 1))])
        real_njt = ss._newJumpTimes
        steps = []
        calls = {"n": 0}
        real_fr = ss.firstReaction

        def fr(*a, **k):
            calls["n"] += 1
            if calls["n"] > K:
                return 0, 0, 0, 0, False
            return real_fr(*a, **k)

        def njt(rates, seed=None):
            before = [(st, len(st.log)) for st in streams]
            n_streams = len(streams)
            out = real_njt(rates, seed=seed)
            used = []
            for st, n0 in before:
                used += [e[1] for e in st.log[n0:]]
            for st in streams[n_streams:]:
                used += [e[1] for e in st.log]
            steps.append({"rates": list(rates), "draws": used, "times": list(np.asarray(out, dtype=object).ravel())})
            return out
        dask, bag = dask_stub()
        saved = {k_: sys.modules.get(k_) for k_ in ("dask", "dask.bag")}
        sys.modules["dask"], sys.modules["dask.bag"] = dask, bag
        try:
            with global_rng(glob), stubs.patched((np.random, "RandomState", RS), (ss, "_newJumpTimes", njt), (simmod, "firstReaction", fr),
                                                  (np.random, "randint", glob.randint)):
                out = m.solve_stochast(T, 2, exact=True, parallel=True, full_output=True)
        finally:
            for k_, v_ in saved.items():
                if v_ is None:
                    sys.modules.pop(k_, None)
                else:
                    sys.modules[k_] = v_
        c.reachable("parallel run completed")
        c.prove(len(out[0]) == 2, "one path per iteration")
        c.prove(len(steps) >= 1, "the stepping code drew its clocks")
        for k_, st_ in enumerate(steps):
            pos = [j for j, r in enumerate(st_["rates"]) if bool(r > 0)]
            c.prove(len(st_["draws"]) == len(pos), "step %d: one exponential draw per positive-rate event" % k_)
            c.prove(len(set(st_["draws"])) == len(st_["draws"]), "step %d: the clocks of different events are different (independent) draws" % k_)
        allnames = [d for st_ in steps for d in st_["draws"]]
        c.prove(len(set(allnames)) == len(allnames), "no draw is used twice across steps and iterations")
    return Unit("C05.parallel_branch[shape_1x2,K=%d]" % K, h,
                bounds={"model": "1 state, 2 events", "iterations": 2, "steps_unwound_in_total": K,
                        "dask.bag": "sequential contract (map applies the function to every element)"},
                max_paths=400, replay=lambda vals, label: replay_parallel())


def rebind_unit():
    """a two-run history on ONE model object: exact run, new parameter values, exact run again from the same
    state.  The clocks of the second run must be scaled by the rates under the CURRENT parameters."""
    from pygom.model import simulate as simmod
    from pygom.model import stochastic_simulation as ss
    spec = [s_ for s_ in shape_specs() if s_.name == "shape_1x2"][0]

    def h(c):
        m = spec.build()           # a fresh object: whatever it memoises starts empty
        x0 = arr(c, [c.intreal("x0", lo=1, hi=4)])
        t0 = c.real("t0")
        T = c.real("T")
        c.assume(T > t0)
        m._stochasticParam = None
        m._state_lims = [(0, None)]
        real_fr = ss.firstReaction
        calls = {"n": 0}

        def fr(*a, **k):
            calls["n"] += 1
            if calls["n"] > 1:
                return 0, 0, 0, 0, False
            return real_fr(*a, **k)
        for run in (1, 2):
            th = {p: c.real("run%d_%s" % (run, p), lo=0, lo_strict=True) for p in spec.params}
            m.parameters = [th[p] for p in spec.params]
            m.initial_values = (x0, t0) if c.mode == "sym" else (np.array(x0, float), np.float64(t0))
            if c.mode == "sym":
                m._x0 = x0
            stream = make_stream(c, "r%d" % run)
            calls["n"] = 0
            with global_rng(stream), stubs.patched((simmod, "firstReaction", fr)):
                X, Jm, Tm, dT = m._jump(T, exact=True, full_output=True)
            c.reachable("run %d returned" % run)
            env = {spec.states[0]: x0[0], "t": t0}
            env.update(th)
            rates = [expr.ev(e, env) for e in spec.rates()]
            pos = [j for j, r in enumerate(rates) if bool(r > 0)]
            c.prove(len(stream.log) == len(pos), "run %d: one exponential draw per positive-rate event" % run)
            for m_, j in enumerate(pos):
                if m_ < len(stream.log):
                    c.prove(close(stream.log[m_][2] * rates[j], 1, c),
                            "run %d: clock %d is Exp with scale 1/rate under the parameters in force for THIS run" % (run, m_))
    return Unit("C05.two_runs_new_parameters[shape_1x2]", h,
                bounds={"model": "1 state, 2 events", "history": "exact run, parameters re-assigned, exact run from the same state", "steps_per_run": 1},
                max_paths=200)


def replay_parallel():
    """real numpy generators, real stepping code, dask by its sequential contract: with equal rates, two events
    given the same draw tie exactly (probability zero for independent clocks)"""
    from pygom.model import stochastic_simulation as ss
    from pygom.model import simulate as simmod
    from pygom import SimulateOde, Transition, Event
    m = SimulateOde(state=["X"], param=["a"],
                    event=[Event(rate="a*X", transition_list=[Transition(origin="X", transition_type="D")]),
                           Event(rate="a*X", transition_list=[Transition(origin="X", destination="X", transition_type="B")])])
    m.parameters = [1.0]
    m.initial_values = (np.array([5.0]), np.float64(0.0))
    ties = []
    real = ss._newJumpTimes

    def njt(rates, seed=None):
        out = real(rates, seed=seed)
        fin = [v for v in np.asarray(out).ravel() if np.isfinite(v)]
        if len(set(fin)) != len(fin):
            ties.append([float(v) for v in fin])
        return out
    dask, bag = dask_stub()
    saved = {k_: sys.modules.get(k_) for k_ in ("dask", "dask.bag")}
    sys.modules["dask"], sys.modules["dask.bag"] = dask, bag
    np.random.seed(3)
    try:
        with stubs.patched((ss, "_newJumpTimes", njt)):
            m.solve_stochast(0.5, 3, exact=True, parallel=True, full_output=True)
    finally:
        for k_, v_ in saved.items():
            if v_ is None:
                sys.modules.pop(k_, None)
            else:
                sys.modules[k_] = v_
    return bool(ties), {"tied_clocks": ties[:3]}


class C05(Check):
    id = "C05"
    level = "other"
    explanation = ("A distribution cannot be an SMT assertion; what determines it can.  With numpy's contract exponential(scale) = scale*E, "
                   "E ~ Exp(1) i.i.d., the first-reaction method samples the CTMC iff one step is the map (E_1..E_n) -> (argmin_j E_j/r_j, "
                   "min_j E_j/r_j) over events with r_j > 0, one fresh draw per positive-rate event (Gillespie 1976: the minimum of independent "
                   "Exp(r_j) clocks is Exp(sum r) and the argmin is Categorical(r/sum r)).  The real rexp/_newJumpTimes/firstReaction and the "
                   "draw-to-event pairing inside SimulateOde._jump (fresh draws per step) are executed symbolically; z3 decides, for all rates and "
                   "all draws: one draw per positive rate with scale exactly 1/r_j, zero-rate events draw nothing and never fire, the fired event "
                   "has the earliest clock, dt is its own clock.  The parallel=True branch is run with dask.bag replaced by its sequential contract: "
                   "whatever generator it hands to the stepping code, the clocks of one step must be pairwise different draws and no draw is "
                   "reused across steps or iterations.  No sampling is performed; the min/argmin theorem is trusted mathematics.")
    stubs = ["numpy.random.exponential(scale, size) = scale * E_k, E_k > 0 (k-th element of a symbolic stream)"]
    assumptions = ["min/argmin theorem for independent exponential clocks (not checked)", "numpy's generator produces i.i.d. unit exponentials",
                   "multinomial-occupancy / SIR final-size corollaries follow from the per-step law and are not sampled", "rates >= 0",
                   "parallel=True: dask.bag replaced by its sequential contract; only the independence of the clocks handed to the stepping code is decided there"]

    def units(self, tier, seed):
        us = []
        shapes = [(2, 2), (2, 3)] if tier == "quick" else [(2, 2), (2, 3), (3, 3), (2, 4)]
        for S, E in shapes:
            us.append(first_reaction_unit(S, E, asserts=("walk", "map"), tag="C05"))
        us.append(jump_unit(expr.by_name("sir"), True, 2, tag="C05"))
        if tier != "quick":
            us.append(jump_unit(expr.by_name("sir"), True, 3, tag="C05", max_paths=20000))
            us.append(jump_unit(expr.by_name("sir_bd_multi"), True, 2, tag="C05"))
            us.append(parallel_unit(3))
        us.append(parallel_unit(2))
        us.append(rebind_unit())
        return us


CHECK = C05()
