"""C05 -- exact simulation samples the CTMC's law, decided as a functional characterisation:
the first-reaction step is the map (E_1..E_n) -> (argmin_j E_j/r_j, min_j E_j/r_j) over the
positive-rate events, each unit-exponential draw used once for its own event."""
from ..core import Check
from .c04 import first_reaction_unit, jump_unit
from .. import expr


class C05(Check):
    id = "C05"
    level = "other"
    explanation = ("A distribution cannot be an SMT assertion; what determines it can.  With numpy's contract exponential(scale) = scale*E, "
                   "E ~ Exp(1) i.i.d., the first-reaction method samples the CTMC iff one step is the map (E_1..E_n) -> (argmin_j E_j/r_j, "
                   "min_j E_j/r_j) over events with r_j > 0, one fresh draw per positive-rate event (Gillespie 1976: the minimum of independent "
                   "Exp(r_j) clocks is Exp(sum r) and the argmin is Categorical(r/sum r)).  The real rexp/_newJumpTimes/firstReaction and the "
                   "draw-to-event pairing inside SimulateOde._jump (fresh draws per step) are executed symbolically; z3 decides, for all rates and "
                   "all draws: one draw per positive rate with scale exactly 1/r_j, zero-rate events draw nothing and never fire, the fired event "
                   "has the earliest clock, dt is its own clock.  No sampling is performed; the min/argmin theorem is trusted mathematics.")
    stubs = ["numpy.random.exponential(scale, size) = scale * E_k, E_k > 0 (k-th element of a symbolic stream)"]
    assumptions = ["min/argmin theorem for independent exponential clocks (not checked)", "numpy's generator produces i.i.d. unit exponentials",
                   "multinomial-occupancy / SIR final-size corollaries follow from the per-step law and are not sampled", "rates >= 0"]

    def units(self, tier, seed):
        us = []
        shapes = [(2, 2), (2, 3)] if tier == "quick" else [(2, 2), (2, 3), (3, 3), (2, 4)]
        for S, E in shapes:
            us.append(first_reaction_unit(S, E, asserts=("walk", "map"), tag="C05"))
        us.append(jump_unit(expr.by_name("sir"), True, 2, tag="C05"))
        return us


CHECK = C05()
