"""C01 -- a model definition is assembled into exactly the equations it describes."""
import numpy as np
import sympy

from .. import sym, expr, s2z, models
from ..core import Check, Unit
from ..sym import all_close, close, Sym

_MODELS = {}


def built(spec, lam=True):
    key = (spec.name, lam)
    if key not in _MODELS:
        _MODELS[key] = spec.build(lam=lam)
    return _MODELS[key]


def point(c, spec, pos=False):
    """symbolic evaluation point (x, t, theta) for a spec"""
    env = {}
    for s in spec.states:
        env[s] = c.real("x_" + s, lo=0 if pos else None)
    env["t"] = c.real("t")
    for p in spec.params:
        env[p] = c.real("th_" + p)
    x = [env[s] for s in spec.states]
    th = [env[p] for p in spec.params]
    if c.mode == "concrete":
        # keep replay points away from singularities
        pass
    return env, x, env["t"], th


def bind(m, th):
    if len(th):
        m.parameters = list(th)


def shape_of(a):
    return tuple(np.asarray(a, dtype=object).shape)


def assembly_unit(spec):
    nS, nE = len(spec.states), len(spec.events)

    def h(c):
        m = built(spec)
        env, x, t, th = point(c, spec)
        bind(m, th)
        f_ref = [expr.ev(e, env) for e in spec.rhs()]
        V_ref = [[expr.ev(e, env) for e in row] for row in spec.V()]
        r_ref = [expr.ev(e, env) for e in spec.rates()]
        p_ref = [expr.ev(e, env) for e in spec.pure()]
        # ---- symbolic getters (sympy -> smt by symbol name) --------------------
        ode_s = m.get_ode_eqn()
        c.prove(ode_s.shape == (nS, 1), "get_ode_eqn shape")
        f_sym = [s2z.s2z(ode_s[i], env) for i in range(nS)]
        c.prove(all_close(f_sym, f_ref, c), "get_ode_eqn == sum_e rate*net + explicit terms")
        Vs = m.get_StateChangeMatrix()
        c.prove(Vs.shape == (nS, nE), "get_StateChangeMatrix shape")
        V_sym = s2z.smat(Vs, env)
        if nE:
            c.prove(all_close(V_sym, V_ref, c), "get_StateChangeMatrix == net magnitudes")
        rs = m.get_EventRateVector()
        c.prove(rs.shape == (nE, 1), "get_EventRateVector shape")
        r_sym = [s2z.s2z(rs[i], env) for i in range(nE)]
        c.prove(all_close(r_sym, r_ref, c), "get_EventRateVector == rates")
        ps = m.get_pureOdeVector()
        p_sym = [s2z.s2z(ps[i], env) for i in range(nS)]
        c.prove(all_close(p_sym, p_ref, c), "get_pureOdeVector == explicit terms")
        recomposed = [p_sym[i] + sum(V_sym[i][j] * r_sym[j] for j in range(nE)) for i in range(nS)]
        c.prove(all_close(recomposed, f_sym, c), "ODE == V x rates + explicit (returned objects)")
        L = m.get_ReactantMatrix()
        c.prove(np.array_equal(np.asarray(L), np.asarray(spec.reactant()).reshape(nS, nE)), "get_ReactantMatrix == involvement")
        # ---- numeric evaluators on symbolic numbers -------------------------------
        f_num = m.ode(x, t)
        c.prove(shape_of(f_num) == (nS,), "ode(x,t) shape")
        c.prove(all_close(f_num, f_ref, c), "ode(x,t) == oracle")
        p_num = m.pureOdeVector(x, t)
        c.prove(shape_of(p_num) == (nS,), "pureOdeVector(x,t) shape")
        c.prove(all_close(p_num, p_ref, c), "pureOdeVector(x,t) == oracle")
        if nE:
            V_num = m.vMat(x, t)
            c.prove(shape_of(V_num) == (nS, nE), "vMat(x,t) shape is (states, events)")
            if shape_of(V_num) == (nS, nE):
                c.prove(all_close(V_num, V_ref, c), "vMat(x,t) == oracle")
            r_num = m.eventRateVector(x, t)
            c.prove(shape_of(r_num) == (nE,), "eventRateVector(x,t) shape")
            c.prove(all_close(r_num, r_ref, c), "eventRateVector(x,t) == oracle")
    return Unit("assembly[%s]" % spec.name, h, bounds={"states": nS, "params": len(spec.params), "events": nE},
                program=spec.describe(), max_paths=50)


class C01(Check):
    id = "C01"
    level = "translation_validation"
    explanation = ("Per model definition: the symbolic getters (translated sympy->SMT by symbol name) and the numeric evaluators "
                   "(the real add_func/compileExprAndFormat/_getEvalParam path executed on z3-backed numbers) are compared with an "
                   "independent oracle (own expression trees, own derived-parameter substitution) by z3 validity queries over ALL "
                   "states, times and parameter values.")
    assumptions = ["floats modelled as reals; denominators non-zero", "lambdify back-end (PyGOM's fall-back) for the numeric evaluators; Cython back-end covered by generated-C translation in the thorough tier where it builds"]
    stubs = []

    def units(self, tier, seed):
        fam = expr.F0()
        if tier == "quick":
            fam = [m for m in fam if m.name in expr.F0_QUICK]
            fam += expr.generate(seed, 4)
        else:
            fam += expr.generate(seed, 40)
        return [assembly_unit(s) for s in fam]


CHECK = C01()
