"""C01 -- a model definition is assembled into exactly the equations it describes."""
import numpy as np
import sympy

from .. import sym, expr, s2z, models
from ..core import Check, Unit
from ..sym import all_close, close, Sym

_MODELS = {}


def built(spec, lam=True):
    if getattr(spec, "model", None) is not None and lam:
        return spec.model          # catalogue model: the real object from pygom.model.common_models
    key = (spec.name, lam)
    if sym.CONCRETE_RUN:
        return spec.build(lam=lam)      # replays / fidelity runs: a fresh object, free of whatever symbolic runs left in it
    if key not in _MODELS:
        _MODELS[key] = spec.build(lam=lam)
    return _MODELS[key]


def point(c, spec, pos=False):
    """symbolic evaluation point (x, t, theta) for a spec"""
    env = {}
    for s in spec.states:
        env[s] = c.real("x_" + s, lo=0 if pos else None)
    env["t"] = c.real("t")
    for p in spec.params:
        env[p] = c.real("th_" + p)
    x = [env[s] for s in spec.states]
    th = [env[p] for p in spec.params]
    if c.mode == "concrete":
        # keep replay points away from singularities
        pass
    return env, x, env["t"], th


def bind(m, th):
    if len(th):
        m.parameters = list(th)


def shape_of(a):
    return tuple(np.asarray(a, dtype=object).shape)


def assembly_body(c, spec, m, tag=""):
    nS, nE = len(spec.states), len(spec.events)
    if True:
        env, x, t, th = point(c, spec)
        bind(m, th)
        f_ref = [expr.ev(e, env) for e in spec.rhs()]
        V_ref = [[expr.ev(e, env) for e in row] for row in spec.V()]
        r_ref = [expr.ev(e, env) for e in spec.rates()]
        p_ref = [expr.ev(e, env) for e in spec.pure()]
        # ---- symbolic getters (sympy -> smt by symbol name) --------------------
        ode_s = m.get_ode_eqn()
        c.prove(ode_s.shape == (nS, 1), "get_ode_eqn shape")
        f_sym = [s2z.s2z(ode_s[i], env) for i in range(nS)]
        c.prove(all_close(f_sym, f_ref, c), "get_ode_eqn == sum_e rate*net + explicit terms")
        Vs = m.get_StateChangeMatrix()
        c.prove(Vs.shape == (nS, nE), "get_StateChangeMatrix shape")
        V_sym = s2z.smat(Vs, env)
        if nE:
            c.prove(all_close(V_sym, V_ref, c), "get_StateChangeMatrix == net magnitudes")
        rs = m.get_EventRateVector()
        c.prove(rs.shape == (nE, 1), "get_EventRateVector shape")
        r_sym = [s2z.s2z(rs[i], env) for i in range(nE)]
        c.prove(all_close(r_sym, r_ref, c), "get_EventRateVector == rates")
        ps = m.get_pureOdeVector()
        p_sym = [s2z.s2z(ps[i], env) for i in range(nS)]
        c.prove(all_close(p_sym, p_ref, c), "get_pureOdeVector == explicit terms")
        recomposed = [p_sym[i] + sum(V_sym[i][j] * r_sym[j] for j in range(nE)) for i in range(nS)]
        c.prove(all_close(recomposed, f_sym, c), "ODE == V x rates + explicit (returned objects)")
        L = m.get_ReactantMatrix()
        c.prove(np.array_equal(np.asarray(L), np.asarray(spec.reactant()).reshape(nS, nE)), "get_ReactantMatrix == involvement")
        # ---- numeric evaluators on symbolic numbers -------------------------------
        f_num = m.ode(x, t)
        c.prove(shape_of(f_num) == (nS,), "ode(x,t) shape")
        c.prove(all_close(f_num, f_ref, c), "ode(x,t) == oracle")
        p_num = m.pureOdeVector(x, t)
        c.prove(shape_of(p_num) == (nS,), "pureOdeVector(x,t) shape")
        c.prove(all_close(p_num, p_ref, c), "pureOdeVector(x,t) == oracle")
        if nE:
            V_num = m.vMat(x, t)
            c.prove(shape_of(V_num) == (nS, nE), "vMat(x,t) shape is (states, events)")
            if shape_of(V_num) == (nS, nE):
                c.prove(all_close(V_num, V_ref, c), "vMat(x,t) == oracle")
            r_num = m.eventRateVector(x, t)
            c.prove(shape_of(r_num) == (nE,), "eventRateVector(x,t) shape")
            c.prove(all_close(r_num, r_ref, c), "eventRateVector(x,t) == oracle")
        # ---- a second point, then the first one again (an evaluator must be a function of its arguments:
        #      nothing remembered from the previous call, the argument arrays left untouched) -------------
        from .stoch import arr as _arr, snapshot, unchanged
        env2 = dict(env)
        for s_ in spec.states:
            env2[s_] = c.real("x2_" + s_)
        env2["t"] = c.real("t2")
        x2 = _arr(c, [env2[s_] for s_ in spec.states])
        xa = _arr(c, list(x))
        before2, beforea = snapshot(x2), snapshot(xa)
        f2 = m.ode(x2, env2["t"])
        c.prove(all_close(f2, [expr.ev(e, env2) for e in spec.rhs()], c), "ode at a second point == oracle at that point")
        if nE:
            r2 = m.eventRateVector(x2, env2["t"])
            c.prove(all_close(r2, [expr.ev(e, env2) for e in spec.rates()], c), "eventRateVector at a second point == oracle at that point")
        c.prove(all_close(m.ode(xa, t), f_ref, c), "ode back at the first point == oracle (nothing remembered from the call in between)")
        c.prove(unchanged(x2, before2, c) and unchanged(xa, beforea, c), "evaluators leave the state arrays they are given untouched")
    return f_sym, V_sym, p_sym, f_num


def assembly_unit(spec):
    nS, nE = len(spec.states), len(spec.events)

    def h(c):
        assembly_body(c, spec, built(spec))
    return Unit("assembly[%s]" % spec.name, h, bounds={"states": nS, "params": len(spec.params), "events": nE},
                program=spec.describe(), max_paths=50)


_CY = {}
CY_EVALS = ["ode", "jacobian", "grad", "vMat", "eventRateVector", "pureOdeVector", "transitionVar"]


def cython_capture(spec):
    """build the model with PyGOM's DEFAULT back-end (Cython autowrap), trigger each evaluator once at a concrete
    point and keep (generated C, argument names, output shape, value returned by the evaluator)"""
    if spec.name in _CY:
        return _CY[spec.name]
    from .. import c2smt
    out = {"ok": True, "evals": {}, "why": None}
    nS, nP, nE = len(spec.states), len(spec.params), len(spec.events)
    xv = [1.5 + 0.75 * i for i in range(nS)]
    thv = [0.3 + 0.2 * k for k in range(nP)]
    tv = 0.7
    with c2smt.capture_autowrap() as calls:
        m = spec.build(lam=False)
        if nP:
            m.parameters = list(thv)
        for name in CY_EVALS:
            if name in ("vMat", "eventRateVector", "transitionVar") and not nE:
                continue
            if name == "grad" and not nP:
                continue
            n0 = len(calls)
            try:
                val = np.asarray(getattr(m, name)(xv, tv), dtype=float)
            except Exception as e:      # noqa
                out["ok"], out["why"] = False, "%s raised %r" % (name, e)
                break
            new = calls[n0:]
            if len(new) != 1 or not new[0].parse():
                out["ok"] = False
                out["why"] = "%s: Cython build not used (PyGOM fell back to another back-end) or unexpected number of compilations (%d)" % (name, len(new))
                break
            cap = new[0]
            out["evals"][name] = {"argnames": cap.argnames, "shape": cap.shape, "rhs": cap.rhs, "value": val,
                                  "c_file": open(cap.c_path).read()[-600:]}
    out["point"] = (xv, tv, thv)
    _CY[spec.name] = out
    return out


def cython_unit(spec):
    """C01 'both compile back-ends': the C that the Cython back-end generates, translated to SMT"""
    from .. import c2smt
    nS, nP, nE = len(spec.states), len(spec.params), len(spec.events)

    def h(c):
        cap = cython_capture(spec)
        if not cap["ok"]:
            c.note("cython back-end unavailable: %s" % cap["why"])
            c.prove(True, "Cython back-end not in use for this definition (%s): nothing to translate" % cap["why"])
            return
        env, x, t, th = point(c, spec)
        refs = {"ode": [[expr.ev(e, env)] for e in spec.rhs()],
                "pureOdeVector": [[expr.ev(e, env)] for e in spec.pure()],
                "jacobian": [[expr.ev(expr.d(f, s_), env) for s_ in spec.states] for f in spec.rhs()],
                "grad": [[expr.ev(expr.d(f, p_), env) for p_ in spec.params] for f in spec.rhs()]}
        if nE:
            refs["vMat"] = [[expr.ev(e, env) for e in row] for row in spec.V()]
            refs["eventRateVector"] = [[expr.ev(e, env)] for e in spec.rates()]
        xv, tv, thv = cap["point"]
        cenv_names = dict(zip(spec.states, xv))
        cenv_names["t"] = tv
        cenv_names.update(dict(zip(spec.params, thv)))
        for name, rec in cap["evals"].items():
            missing = [a for a in rec["argnames"] if a not in env]
            c.prove(not missing, "%s: every C argument is a declared state, parameter or t" % name)
            if missing:
                continue
            terms = [c2smt.c_to_value(r, env) for r in rec["rhs"]]
            R, C_ = rec["shape"]
            if name in refs:
                ref = refs[name]
                flat = [v for row in ref for v in row]
                ok_shape = (R * C_ == len(flat)) and (R == len(ref) or C_ == len(ref) or R * C_ == len(ref))
                c.prove(ok_shape and (R, C_) == (len(ref), len(ref[0])) or (1 in (R, C_) and R * C_ == len(flat)), "%s: generated C has the documented shape" % name)
                if len(terms) == len(flat):
                    c.prove(all_close(terms, flat, c), "%s: generated C (Cython back-end) == oracle, row-major" % name)
            # tie the shared object PyGOM calls to the C that was translated: same value at the concrete point
            conc = [c2smt.c_to_value(r, cenv_names, concrete=True) for r in rec["rhs"]]
            got = np.asarray(rec["value"], dtype=float).ravel()
            tie = len(conc) == len(got) and all(abs(float(a) - float(b)) <= 1e-9 * (1 + abs(float(b))) for a, b in zip(conc, got))
            c.prove(bool(tie), "%s: the compiled evaluator returns the value of the translated C at a concrete point" % name)
    return Unit("cython[%s]" % spec.name, h, bounds={"states": nS, "params": nP, "events": nE, "back_end": "Cython autowrap (PyGOM default)",
                                                    "evaluators": CY_EVALS}, program=spec.describe(), max_paths=5, fidelity=0)


NAME_POOLS = [("i", "j", "k", "n", "m"), ("x", "y", "z", "l", "h"), ("e", "f", "g", "c", "d"), ("E", "N", "O", "Q", "S"),
              ("beta", "gamma", "zeta", "alpha", "sigma"), ("r", "w", "u", "v", "o"), ("I", "J", "K", "L", "M"),
              ("lam", "mu", "nu", "xi", "rho"), ("f1", "x_1", "y2", "a_b", "c3")]


def names_spec(pool):
    """identifiers are inputs too: the same 3-state model (two transitions + an explicit ODE term) written with
    names that collide with common loop indices, sympy singletons/functions (E, N, S, I, beta, gamma, zeta) or
    carry digits/underscores"""
    Vv = expr.Var
    s1, s2, s3, p1, p2 = pool
    return expr.ModelSpec("names_" + "_".join(pool), [s1, s2, s3], [p1, p2],
                          [expr.Ev(Vv(p1) * Vv(s1) * Vv(s2), [expr.Tr("T", s1, s2)]), expr.Ev(Vv(p2) * Vv(s2), [expr.Tr("T", s2, s3)])],
                          odes=[(s3, -(Vv(p2) * Vv(s3) * Vv(s1)))])


def sigma_structures(states, kinds=("T", "B", "D")):
    """every single transition over `states`: T (ordered pairs), B by destination, B by origin, D"""
    out = []
    for o in states:
        for d in states:
            if o != d and "T" in kinds:
                out.append(("T", o, d, False))
    if "B" in kinds:
        for s in states:
            out.append(("B", None, s, False))
            out.append(("B", s, None, True))
    if "D" in kinds:
        for s in states:
            out.append(("D", s, None, False))
    return out


def sigma_specs(k, kinds=("T", "B", "D"), prefix=True, states=("X", "Y", "Z")):
    """Sigma layer: a concrete prefix model plus k transitions of every structure, each with a free rate
    parameter r_i and a free magnitude parameter m_i; transitions grouped into events in every way
    (set partitions of consecutive runs)"""
    import itertools
    v = expr.Var
    singles = sigma_structures(list(states), kinds)
    groupings = {1: [[1]], 2: [[1, 1], [2]], 3: [[1, 1, 1], [2, 1], [1, 2], [3]]}[k]
    specs = []
    for combo in itertools.product(singles, repeat=k):
        for grp in groupings:
            params = ["q"] + ["r%d" % i for i in range(k)] + ["m%d" % i for i in range(k)]
            events = []
            if prefix:
                events.append(expr.Ev(v("q") * v(states[0]) * v(states[1]), [expr.Tr("T", states[0], states[1])]))
            i = 0
            ok = True
            for size in grp:
                trs = []
                for _ in range(size):
                    kind, o, d, by_o = combo[i]
                    trs.append(expr.Tr(kind, origin=o, destination=d, magnitude=v("m%d" % i), birth_by_origin=by_o))
                    i += 1
                events.append(expr.Ev(v("r%d" % (i - size)), trs))
            name = "sigma%d[%s|%s]" % (k, ";".join("%s:%s>%s%s" % (a, b, cc, "o" if dd else "") for a, b, cc, dd in combo), "+".join(map(str, grp)))
            odes = [(states[-1], v("q") * v(states[0]))] if prefix else []
            specs.append(expr.ModelSpec(name, list(states), params, events, odes))
    return specs


def sigma_unit(specs, idx, extra=None, tag="C01"):
    def h(c):
        for spec in specs:
            m = spec.build()
            res = assembly_body(c, spec, m)
            if extra is not None:
                extra(c, spec, m, res)
    return Unit("%s.sigma[chunk %d: %d structures, first=%s]" % (tag, idx, len(specs), specs[0].name), h,
                bounds={"structures": len(specs), "states": 3, "rates_and_magnitudes": "free symbols"},
                program={"sigma_chunk": idx, "n": len(specs), "first": specs[0].name, "last": specs[-1].name}, max_paths=10,
                n_programs=len(specs))


def chunks(lst, n):
    size = max(1, (len(lst) + n - 1) // n)
    return [lst[i:i + size] for i in range(0, len(lst), size)]


class C01(Check):
    id = "C01"
    level = "translation_validation"
    explanation = ("Per model definition: the symbolic getters (translated sympy->SMT by symbol name) and the numeric evaluators "
                   "(the real add_func/compileExprAndFormat/_getEvalParam path executed on z3-backed numbers) are compared with an "
                   "independent oracle (own expression trees, own derived-parameter substitution) by z3 validity queries over ALL "
                   "states, times and parameter values.  Also: a family of models whose identifiers collide with loop indices and sympy singletons/functions; and the default Cython back-end "
                   "by translating the C it generates into SMT terms (cython[...] units).")
    assumptions = ["floats modelled as reals; denominators non-zero", "numeric evaluators are executed symbolically through the lambdify back-end (PyGOM's fall-back); the default Cython back-end is covered by translating the C it generates to SMT (cython[...] units: one definition quick, seven thorough) and tying the shared object to that C at a concrete point; gcc and Cython themselves are trusted"]
    stubs = []

    def units(self, tier, seed):
        fam = expr.F0()
        if tier == "quick":
            fam = [m for m in fam if m.name in expr.F0_QUICK]
            fam += expr.generate(seed, 4)
        else:
            fam += expr.generate(seed, 40)
        us = [assembly_unit(s) for s in fam]
        for u, s in zip(us, fam):
            u.optional = s.name.startswith("gen")
        us += [assembly_unit(names_spec(pool)) for pool in NAME_POOLS]
        # the catalogue (pygom.model.common_models): oracle assembled from the definition each model stores as given
        cat = ["SIR_Birth_Death", "SEIR_Birth_Death_Periodic", "Lotka_Volterra", "FitzHugh"] if tier == "quick" else expr.CATALOGUE
        us += [assembly_unit(expr.catalogue(nm)) for nm in cat]
        cy = ["sir_mag"] if tier == "quick" else ["sir_mag", "saturating", "exponential", "periodic", "derived_nested", "ode_mixed", "sir_bd_multi"]
        us += [cython_unit(expr.by_name(nm)) for nm in cy]
        sig = sigma_specs(1) + (sigma_specs(2) if tier != "quick" else sigma_specs(2)[::7])
        if tier != "quick":
            sig += sigma_specs(3)[::3]
        self.n_sigma = len(sig)
        for i, ch in enumerate(chunks(sig, 16 if tier == "quick" else 64)):
            us.append(sigma_unit(ch, i))
        return us

    def extra(self, tier, seed):
        return {"sigma_structures": getattr(self, "n_sigma", 0)}, []


CHECK = C01()
