"""C19 -- R-style distribution helpers are the distributions they name."""
import numpy as np

from .. import sym, stubs, expr
from ..core import Check, Unit
from ..sym import Sym, SymBool, all_close, close, near
from .stoch import zsum, arr, make_stream
from .c14 import ref_nll


def spec_table():
    """(function name, scipy dist, scipy fn, argument builder) ; R parameterisation on the left, scipy on the right"""
    T = []
    # exponential: rate -> scale = 1/rate
    for r, fn in (("dexp", "pdf"), ("pexp", "cdf")):
        T.append((r, "expon", fn, ["rate"], lambda a: dict(loc=0, scale=1 / a["rate"]), True))
    T.append(("qexp", "expon", "ppf", ["rate"], lambda a: dict(loc=0, scale=1 / a["rate"]), False))
    for r, fn in (("dgamma", "pdf"), ("pgamma", "cdf")):
        T.append((r, "gamma", fn, ["shape", "rate"], lambda a: dict(a=a["shape"], loc=0, scale=1 / a["rate"]), True))
    T.append(("qgamma", "gamma", "ppf", ["shape", "rate"], lambda a: dict(a=a["shape"], loc=0, scale=1 / a["rate"]), False))
    for r, fn in (("dnorm", "pdf"), ("pnorm", "cdf")):
        T.append((r, "norm", fn, ["mean", "sd"], lambda a: dict(loc=a["mean"], scale=a["sd"]), True))
    T.append(("qnorm", "norm", "ppf", ["mean", "sd"], lambda a: dict(loc=a["mean"], scale=a["sd"]), False))
    for r, fn in (("dchisq", "pdf"), ("pchisq", "cdf")):
        T.append((r, "chi2", fn, ["df"], lambda a: dict(df=a["df"], loc=0, scale=1), True))
    T.append(("qchisq", "chi2", "ppf", ["df"], lambda a: dict(df=a["df"], loc=0, scale=1), False))
    for r, fn in (("dunif", "pdf"), ("punif", "cdf")):
        T.append((r, "uniform", fn, ["min", "max"], lambda a: dict(loc=a["min"], scale=a["max"] - a["min"]), True))
    T.append(("qunif", "uniform", "ppf", ["min", "max"], lambda a: dict(loc=a["min"], scale=a["max"] - a["min"]), False))
    T.append(("dbeta", "beta", "pdf", ["shape1", "shape2"], lambda a: dict(a=a["shape1"], b=a["shape2"], loc=0, scale=1), True))
    T.append(("qbeta", "beta", "ppf", ["shape1", "shape2"], lambda a: dict(a=a["shape1"], b=a["shape2"], loc=0, scale=1), False))
    for r, fn in (("dpois", "pmf"), ("ppois", "cdf")):
        T.append((r, "poisson", fn, ["mu"], lambda a: dict(mu=a["mu"], loc=0), True))
    T.append(("qpois", "poisson", "ppf", ["mu"], lambda a: dict(mu=a["mu"], loc=0), False))
    for r, fn in (("dbinom", "pmf"), ("pbinom", "cdf")):
        T.append((r, "binom", fn, ["size", "prob"], lambda a: dict(n=a["size"], p=a["prob"], loc=0), True))
    T.append(("qbinom", "binom", "ppf", ["size", "prob"], lambda a: dict(n=a["size"], p=a["prob"], loc=0), False))
    return T


LOGFN = {"pdf": "logpdf", "cdf": "logcdf", "pmf": "logpmf"}


def oracle(c, st, dist, fn, x, params):
    if c.mode == "sym":
        tail = ["loc"] if dist in stubs.DISCRETE else ["loc", "scale"]
        full = dict(params)
        return st.term(dist, fn, x, full)
    import scipy.stats
    return getattr(getattr(scipy.stats, dist), fn)(x, **params)


def dpq_unit(entry):
    rname, dist, fn, argn, conv, has_log = entry
    from pygom.utilR import distn

    def h(c):
        args = {}
        for a in argn:
            if a in ("size",):
                args[a] = c.intreal(a, lo=1, hi=20)
            elif a == "prob":
                args[a] = c.real(a, lo=0.05, hi=0.95)
            elif a == "max":
                args[a] = args["min"] + c.real("width", lo=0.5, hi=5)
            elif a in ("mean", "min"):
                args[a] = c.real(a, lo=-3, hi=3)
            else:
                args[a] = c.real(a, lo=0.2, hi=5)
        def draw_x(sfx=""):
            if fn == "ppf":
                return c.real("p" + sfx, lo=0.05, hi=0.95)
            if dist in stubs.DISCRETE:
                v = c.intreal("x" + sfx, lo=0, hi=15)
                if dist == "binom":
                    c.assume(v <= args["size"])      # argument in the support (log-pmf is -inf outside it)
                return v
            if dist == "uniform":
                return args["min"] + c.real("ux" + sfx, lo=0.1, hi=0.9) * (args["max"] - args["min"])
            if dist == "beta":
                return c.real("x" + sfx, lo=0.05, hi=0.95)
            if dist == "norm":
                return c.real("x" + sfx, lo=-4, hi=4)
            return c.real("x" + sfx, lo=0.1, hi=8)
        x = draw_x()
        if c.mode == "concrete" and "x_override" in c.values and fn != "ppf":
            x = float(c.values["x_override"])      # replay at an extreme argument (see tail_replay)
        f = getattr(distn, rname)
        st = stubs.StatsStub(c, closed_forms=False) if c.mode == "sym" else None
        patches = [(distn, "st", st)] if c.mode == "sym" else []
        logs = [False, True] if has_log else [None]
        with stubs.patched(*patches):
            for lg in logs:
                kw = dict(args)
                if lg is not None:
                    kw["log"] = lg
                got = f(x, **kw)
                want = oracle(c, st, dist, LOGFN[fn] if lg else fn, x, conv(args))
                c.prove(near(got, want, c, eps=0, tol=1e-9) if c.mode != "sym" else close(got, want, c),
                        "%s(log=%s) is scipy's %s.%s with R's parameterisation" % (rname, lg, dist, LOGFN[fn] if lg else fn))
            # vectorised call agrees element-wise
            xs = arr(c, [x, x]) if c.mode == "sym" else np.array([x, x])
            kw = dict(args)
            if has_log:
                kw["log"] = False
            gv = f(xs, **kw)
            c.prove(np.asarray(gv, dtype=object).shape == (2,), "%s is vectorised over its first argument" % rname)
            # the caller refills the SAME array in place and asks again: nothing about the earlier contents may be remembered
            x2, x3 = draw_x("_b"), draw_x("_c")
            xs[0], xs[1] = x2, x3
            gv2 = np.asarray(f(xs, **kw), dtype=object).ravel()
            if gv2.shape == (2,):
                for i_, xv in enumerate((x2, x3)):
                    want = oracle(c, st, dist, fn, xv, conv(args))
                    c.prove(near(gv2[i_], want, c, eps=0, tol=1e-9) if c.mode != "sym" else close(gv2[i_], want, c),
                            "%s on an array refilled in place: entry %d is the value at the new contents" % (rname, i_))
            c.prove(close(xs[0], x2, c) and close(xs[1], x3, c), "%s leaves the array it is given unchanged" % rname)
    # boundary points of each family's parameter / argument domain (valid inputs at the edge of the symbolic ranges,
    # probed concretely against scipy and labelled as such)
    BP = {"poisson": [{"mu": 0.0, "x": 0}, {"mu": 0.0, "x": 2}], "binom": [{"prob": 0.0, "x": 0, "size": 3}, {"prob": 1.0, "x": 3, "size": 3}],
          "expon": [{"x": 0.0}], "gamma": [{"x": 0.0, "shape": 1.0}, {"x": 0.0, "shape": 2.5}], "uniform": [{"ux": 0.0}, {"ux": 1.0}],
          "beta": [{"x": 0.0, "shape1": 1.0}, {"x": 1.0, "shape2": 1.0}], "chi2": [{"x": 0.0, "df": 2.0}], "norm": [{"x": 0.0, "mean": 0.0}]}
    pts = BP.get(dist, []) if fn != "ppf" else []
    return Unit("C19.%s" % rname, h, bounds={"function": rname, "args": argn, "boundary_points": pts}, max_paths=20, tol=1e-9,
                replay=(lambda vals, label: tail_replay(h, vals, label)) if has_log else None,
                stress={"points": pts} if pts else None)


def tail_replay(h, vals, label):
    """A counter-model separates two expressions that agree over the reals (e.g. log(pdf) vs logpdf) only where
    floating point does: replay at the counter-model's point first, then at extreme arguments of the family
    (far tails, tiny and large values), where a log form computed as log(plain form) underflows."""
    tries = []
    for xo in (None, 45.0, -45.0, 60.0, -60.0, 400.0, 1e-300, 745.0):
        v = dict(vals)
        if xo is not None:
            v["x_override"] = xo
        try:
            c0, status, exc = sym.run_concrete(h, v, 1e-9)
        except BaseException as e:      # noqa
            tries.append({"x": xo, "error": repr(e)[:80]})
            continue
        tries.append({"x": xo, "status": status, "failed": c0.failed[:3]})
        if c0.failed:
            return True, {"tries": tries}
    return False, {"tries": tries}


def nbinom_unit():
    from pygom.utilR import distn

    def h(c):
        x = c.intreal("x", lo=0, hi=30)
        size = c.real("size", lo=0.3, hi=6)
        mu = c.real("mu", lo=0.2, hi=30)
        st = stubs.StatsStub(c, closed_forms=False) if c.mode == "sym" else None
        patches = [(distn, "st", st), (distn, "gammaln", stubs.stub_gammaln)] if c.mode == "sym" else []
        V = expr.Var
        ref = -ref_nll("NegBinom", V("y"), V("yh"), V("sp"), V("w"))
        want = expr.ev(ref, {"y": x, "yh": mu, "sp": size, "w": 1})
        with stubs.patched(*patches):
            got = distn.dnbinom(x, size, mu=mu, log=True)
            c.prove(near(got, want, c, tol=1e-9), "dnbinom(x, size, mu=, log=True) == log pmf of NB(n=size, p=size/(size+mu))")
            got2 = distn.nb2pmf(x, mu, size, log=True)
            c.prove(near(got2, want, c, tol=1e-9), "nb2pmf(log=True) == the same reference")
            p = size / (size + mu)
            g3 = distn.dnbinom(x, size, prob=p, log=True)
            if c.mode == "sym":
                w3 = st.term("nbinom", "logpmf", x, dict(n=size, p=p, loc=0))
                c.prove(close(g3, w3, c), "dnbinom(prob=) is scipy's nbinom.logpmf(n=size, p=prob)")
                g4 = distn.dnbinom(x, size, prob=p, log=False)
                c.prove(close(g4, st.term("nbinom", "pmf", x, dict(n=size, p=p, loc=0)), c), "dnbinom(prob=, log=False) is scipy's nbinom.pmf")
            else:
                c.prove(near(g3, want, c, tol=1e-8), "mean/size form agrees with the standard (n, p) form")
            # one observation array, refilled in place between two calls (a preallocated buffer)
            x2 = c.intreal("x_b", lo=0, hi=30)
            x3 = c.intreal("x_c", lo=0, hi=30)
            buf = arr(c, [x, x2]) if c.mode == "sym" else np.array([x, x2], dtype=float)
            distn.dnbinom(buf, size, mu=mu, log=True)
            buf[0], buf[1] = x3, x
            gb = np.asarray(distn.dnbinom(buf, size, mu=mu, log=True), dtype=object).ravel()
            c.prove(gb.shape == (2,), "dnbinom is vectorised over its first argument")
            if gb.shape == (2,):
                for i_, xv in enumerate((x3, x)):
                    wv = expr.ev(ref, {"y": xv, "yh": mu, "sp": size, "w": 1})
                    c.prove(near(gb[i_], wv, c, tol=1e-9), "dnbinom(mu=) on an array refilled in place: entry %d is the value at the new contents" % i_)
            raised = 0
            for kw in (dict(), dict(prob=0.5, mu=1.0)):
                try:
                    distn.dnbinom(x, size, **kw)
                except Exception:
                    raised += 1
            c.prove(raised == 2, "dnbinom rejects neither/both of prob and mu")
    return Unit("C19.dnbinom", h, bounds={"x": "0..30", "size": "[0.3,6]", "mu": "[0.2,30]"}, max_paths=20, tol=1e-8)


class SeededRng(object):
    """np.random.RandomState(seed) -> stream keyed by the seed term; unseeded sources -> fresh streams"""
    n = 0

    def __init__(self, c):
        self.c = c

    def RandomState(self, seed=None):
        SeededRng.n += 1
        if seed is None:
            return make_stream(self.c, "fresh%d" % SeededRng.n)
        return make_stream(self.c, "seed[%s]" % (seed,))


SEEDS = (0, 1, 12345, 2 ** 32 - 1)


def seed_unit(rname, seeds=None, sizes=(1, 3)):
    from pygom.utilR import distn
    import scipy.stats

    def h(c):
        if c.mode != "sym":
            return
        kwargs = {"rexp": lambda: dict(rate=c.real("rate", lo=0.2, hi=5)),
                  "rgamma": lambda: dict(shape=c.real("shape", lo=0.2, hi=5), rate=c.real("rate", lo=0.2, hi=5)),
                  "rnorm": lambda: dict(mean=c.real("mean"), sd=c.real("sd", lo=0.1, hi=5)), "rchisq": lambda: dict(df=c.real("df", lo=0.5, hi=9)),
                  "runif": lambda: dict(min=c.real("min", lo=-2, hi=2), max=c.real("max", lo=3, hi=5)), "rpois": lambda: dict(mu=c.real("mu", lo=0.2, hi=9)),
                  "rbinom": lambda: dict(size=7, prob=c.real("prob", lo=0.1, hi=0.9))}[rname]()
        f = getattr(distn, rname)
        SeededRng.n = 0
        rng = SeededRng(c)

        class RS(object):
            def __new__(cls, seed_=None):
                return rng.RandomState(seed_)
        glob = make_stream(c, "global")
        fresh = {"k": 0}

        class St(object):
            """scipy.stats samplers draw from the (unseeded here) global generator: a fresh stream per call"""
            def __getattr__(self_, dist):
                class D(object):
                    def rvs(self__, *a, size=None, **k):
                        fresh["k"] += 1
                        s = make_stream(c, "scipy_unseeded%d" % fresh["k"])
                        return s.uniform(0, 1, size=size)
                return D()
        from .stoch import global_rng
        for seed in (seeds or SEEDS):
            for n in sizes:
                with global_rng(glob), stubs.patched((np.random, "RandomState", RS), (distn, "st", St()),
                                                      (np.random, "get_state", glob.get_state)):
                    a = f(n, seed=seed, **kwargs)
                    glob.normal()          # some unseeded draw in between advances numpy's global generator
                    b = f(n, seed=seed, **kwargs)
                fa = list(np.asarray(a, dtype=object).ravel())
                fb = list(np.asarray(b, dtype=object).ravel())
                c.prove(len(fa) == n and len(fb) == n, "%s(n=%d) returns n draws" % (rname, n))
                c.prove(all_close(fa, fb, c) if len(fa) == len(fb) else False,
                        "%s(n=%d, seed=%d) twice (global generator advanced in between) returns the same draws" % (rname, n, seed))
    return Unit("C19.seed.%s%s" % (rname, "" if seeds is None else "[more seeds and sizes]"), h, bounds={"n": list(sizes), "seeds": list(seeds or SEEDS), "between_calls": "one unseeded draw from the global generator"}, max_paths=20, replay=lambda vals, label: replay_seed(rname))


def replay_seed(rname):
    from pygom.utilR import distn
    kw = {"rexp": dict(rate=2.0), "rgamma": dict(shape=2.0, rate=1.5), "rnorm": dict(mean=1.0, sd=2.0), "rchisq": dict(df=3.0),
          "runif": dict(min=-1.0, max=4.0), "rpois": dict(mu=3.0), "rbinom": dict(size=7, prob=0.4)}[rname]
    f = getattr(distn, rname)
    bad = {}
    for seed in SEEDS:
        for n in (1, 3):
            a = np.asarray(f(n, seed=seed, **kw)).ravel()
            np.random.normal()
            b = np.asarray(f(n, seed=seed, **kw)).ravel()
            if a.shape != b.shape or not np.array_equal(a, b):
                bad["seed=%d,n=%d" % (seed, n)] = [a.tolist(), b.tolist()]
    return bool(bad), bad


class C19(Check):
    id = "C19"
    level = "other"
    explanation = ("Every d/p/q helper is executed with symbolic argument and parameters against a stand-in for scipy.stats whose functions "
                   "are uninterpreted symbols of (x, shape parameters, loc, scale) with scipy's argument normalisation; z3 proves the helper IS "
                   "scipy's pdf/pmf, cdf, ppf (and their log variants for log=True) of the named family under R's parameterisation (scale = 1/rate, "
                   "loc=min, scale=max-min, ...).  dnbinom's mean/size form is proved equal to the standard NB(n, p=size/(size+mu)) log-pmf via "
                   "log laws.  The seeded generators are run twice with the same integer seed against seed-keyed symbolic streams (un-seeded "
                   "sources are fresh streams) for seeds 0, 1, 12345 and 2^32-1 with an unseeded global draw in between: the draws must be equal terms.  "
                   "When the solver separates a log form from the log of the plain form (equal over the reals), the replay also visits far-tail arguments.  Every helper is called again on an array refilled in place by the caller (nothing about the "
                   "earlier contents may be remembered) and must leave that array unchanged.")
    stubs = ["scipy.stats -> uninterpreted functions with scipy's signature normalisation", "np.random.RandomState(seed) -> stream keyed by seed", "gammaln -> lgamma UF"]
    assumptions = ["numerical values of scipy.stats (C/Fortran special functions) are not decided", "arguments in the support, valid parameters"]

    def units(self, tier, seed):
        us = [dpq_unit(e) for e in spec_table()]
        us.append(nbinom_unit())
        us += [seed_unit(r) for r in ("rexp", "rgamma", "rnorm", "rchisq", "runif", "rpois", "rbinom")]
        if tier != "quick":
            more = (2, 7, 42, 2 ** 16, 2 ** 31 - 1, 2 ** 31, 2 ** 32 - 2)
            us += [seed_unit(r, seeds=more, sizes=(1, 2, 5)) for r in ("rexp", "rgamma", "rnorm", "rchisq", "runif", "rpois", "rbinom")]
        return us


CHECK = C19()
