"""C17 -- ABC keeps only particles inside the prior support and under the tolerance.

The real Parameter / create_loss / ABC code (constructor incl. par_order, _perform_generation,
get_posterior_sample(_original), continue_posterior_sample, get_tolerance, _log_parameters,
_get_update_function, sigma_nearest_neighbours, _get_sigma) and under it the real loss object
(_setParam/_setParamStateInput/_unrollState/_unrollParam/cost) run on symbolic prior draws,
perturbation-kernel draws, kernel densities, observations, tolerances and quantile."""
import itertools
import numpy as np
import z3

from .. import sym, stubs, expr, models
from ..core import Check, Unit
from ..sym import Sym, SymBool, all_close, close, near
from .stoch import zsum, conj, disj, arr, mat, make_stream
from .c06 import STATES, PARAMS, sir3_rhs, ref_solution, ref_cost, loss_patches, LossCase

# ---------------------------------------------------------------------------------------------
# prior specifications:  (name, distname, pars, logscale)
#   pars: tuple of numbers, or None = symbolic bounds (uniform only; the constructor of the other
#   families calls scipy's ppf and floor on its parameters)
# ---------------------------------------------------------------------------------------------
PRIOR_SETS = {
    # two model parameters given in NON-model order
    "gb_unif": [("gamma", "unif", None, False), ("beta", "unif", None, False)],
    # log-scale uniform + gamma prior
    "b_log_g_gamma": [("beta", "unif", (-2.0, 0.0), True), ("gamma", "gamma", (2.0, 4.0), False)],
    # normal prior (support = R), log flag on the second
    "b_norm_g_log": [("beta", "norm", (0.2, 0.1), False), ("gamma", "unif", (-1.0, 0.0), True)],
    # one model parameter only (the other keeps the model's value)
    "g_only": [("gamma", "unif", None, False)],
    # parameters and initial values interleaved, states in non-model order
    "g_R_b_S": [("gamma", "unif", None, False), ("R", "unif", None, False), ("beta", "unif", (0.0, 1.0), False), ("S", "gamma", (2.0, 0.5), False)],
    # an initial value listed BEFORE the rates, log flag on a rate: par_order is a non-trivial permutation and the
    # log mask (Parameter-list order) differs from the permuted (loss) order
    "J_blog_g": [("J", "unif", None, False), ("beta", "unif", (-2.0, -0.5), True), ("gamma", "unif", None, False)],
    # states out of model order, log flag on the first
    "Rlog_S_g": [("R", "unif", (-1.0, 1.0), True), ("S", "unif", None, False), ("gamma", "unif", None, False)],
    # initial value on log scale
    "b_J_log": [("beta", "unif", None, False), ("gamma", "unif", None, False), ("J", "unif", (-1.0, 1.0), True)],
}


class Draws(object):
    """every source of randomness used by ABC, as named symbols (sym mode) or recorded values (replay)"""

    def __init__(self, c, max_trials, fixed_picks=None):
        self.c = c
        self.fixed_picks = fixed_picks or {}
        self.stream = make_stream(c, "pr")
        self.max_trials = max_trials
        self.n_mv = 0
        self.n_pick = 0
        self.n_ker = 0
        self.trials = []
        self.kernels = []

    def _trial(self):
        if len(self.trials) >= self.max_trials:
            raise sym.Abort("trial budget (unwinding bound) reached", kind="unwind")

    def rmvnorm(self, n, mean, sigma, seed=None):
        self._trial()
        k = self.n_mv
        self.n_mv += 1
        d = len(np.asarray(mean, dtype=object).ravel())
        v = [self.c.real("mv%d_%d" % (k, i), lo=-3, hi=5) for i in range(d)]
        self.trials.append(("kernel", v))
        return arr(self.c, v)

    def dmvnorm(self, x, mean=None, sigma=None):
        k = self.n_ker
        self.n_ker += 1
        xs = np.asarray(x, dtype=object)
        rows = xs.shape[0] if xs.ndim > 1 else 1
        v = [self.c.real("ker%d_%d" % (k, j), lo=0, lo_strict=True, hi=10) for j in range(rows)]
        self.kernels.append({"x": xs, "mean": mean, "sigma": sigma, "vals": v})
        return arr(self.c, v) if xs.ndim > 1 else v[0]

    def choice(self, n, p=None):
        k = self.n_pick
        self.n_pick += 1
        if k in self.fixed_picks:
            # case split over units: this unit explores only the stated value of the k-th resampling index
            v = self.fixed_picks[k]
            if self.c.mode == "sym":
                z = self.c.int("pick%d" % k, lo=0, hi=int(n) - 1)
                self.c.assume(z == v)
            return v
        return self.c.choice("pick%d" % k, int(n))


class RandomNS(object):
    def __init__(self, draws):
        self._d = draws

    def choice(self, n, p=None, **kw):
        return self._d.choice(n, p)

    def __getattr__(self, k):
        return getattr(self._d.stream, k)


def quantile_linear(a, q, c):
    """numpy's default ('linear') quantile: sort, position q*(n-1), interpolate.  Sorting and the
    position index fork on the symbolic comparisons."""
    v = list(np.asarray(a, dtype=object).ravel())
    n = len(v)
    # insertion sort (forks)
    s = []
    for x in v:
        i = 0
        while i < len(s) and bool(s[i] <= x):
            i += 1
        s.insert(i, x)
    if n == 1:
        return s[0]
    pos = q * (n - 1)
    for k in range(n - 1):
        if k == n - 2 or bool(pos < k + 1):
            return s[k] + (pos - k) * (s[k + 1] - s[k])


class AbcNumpy(stubs.NumpyObjProxy):
    """`np` as seen by the ABC module during a run (both modes): random -> named draws;
    sym mode additionally: object-dtype accumulators, einsum/cov/quantile models for object arrays"""

    def __init__(self, c, draws):
        stubs.NumpyObjProxy.__init__(self)
        self._c = c
        self.random = RandomNS(draws)

    def zeros(self, shape, dtype=None, **kw):
        if self._c.mode != "sym":
            return np.zeros(shape, dtype=dtype or float, **kw)
        return stubs.NumpyObjProxy.zeros(self, shape, dtype, **kw)

    def ones(self, shape, dtype=None, **kw):
        if self._c.mode != "sym":
            return np.ones(shape, dtype=dtype or float, **kw)
        return stubs.NumpyObjProxy.ones(self, shape, dtype, **kw)

    def einsum(self, spec, *ops):
        if self._c.mode != "sym":
            return np.einsum(spec, *ops)
        assert spec == "ij,ik,i->jk", spec
        A, B, w = [np.asarray(o, dtype=object) for o in ops]
        n, d = A.shape
        out = np.empty((d, d), dtype=object)
        for j in range(d):
            for k in range(d):
                out[j, k] = zsum(A[i, j] * B[i, k] * w[i] for i in range(n))
        return out

    def cov(self, m, **kw):
        if self._c.mode != "sym":
            try:
                return np.cov(m, **kw)
            except Exception:
                return np.eye(np.asarray(m).shape[0])
        # only feeds the (stubbed) kernel sampler / density: opaque matrix
        d = np.asarray(m, dtype=object).shape[0]
        return np.eye(d)

    def quantile(self, a, q, **kw):
        if self._c.mode != "sym":
            return np.quantile(a, q, **kw)
        return quantile_linear(a, q, self._c)

    def argpartition(self, a, kth, **kw):
        if self._c.mode != "sym":
            return np.argpartition(a, kth, **kw)
        # a full (forking) argsort is a valid argpartition
        v = list(np.asarray(a, dtype=object).ravel())
        idx = []
        for j, x in enumerate(v):
            i = 0
            while i < len(idx) and bool(v[idx[i]] <= x):
                i += 1
            idx.insert(i, j)
        return np.array(idx)


class Case(object):
    pass


def prior_value_ranges(name):
    """ranges of the symbolic uniform prior bounds per quantity (keep the ODE parameters positive)"""
    if name == "beta":
        return (0.01, 0.1), (0.2, 0.4)
    if name == "gamma":
        return (0.1, 0.3), (0.5, 1.0)
    return (0.5, 2.0), (5.0, 12.0)


def build(c, prior_set, sel, n, constraint, draws):
    """real Parameter objects, real create_loss, real ABC constructor"""
    from pygom import approximate_bayesian_computation as pgabc
    K = Case()
    m = models.cached("sir3")
    specs = PRIOR_SETS[prior_set]
    K.specs = specs
    K.names = [s[0] for s in specs]
    K.log = [s[3] for s in specs]
    K.prior_pars = []
    params = []
    for name, dist, pars, logscale in specs:
        if pars is None:
            (a0, a1), (b0, b1) = prior_value_ranges(name)
            lo = c.real("prior_lo_%s" % name, lo=a0, hi=a1)
            hi = c.real("prior_hi_%s" % name, lo=b0, hi=b1)
            pars = (lo, hi)
        K.prior_pars.append(pars)
        # the constructor of non-uniform priors rounds scipy quantiles of its (concrete) parameters: real scipy there
        import scipy.stats as real_st
        from pygom.utilR import distn
        with stubs.patched((distn, "st", real_st)):
            params.append(pgabc.Parameter(name, dist, *pars, logscale=logscale))
    K.parameters = params
    # the loss object, built the way the package's own helper builds it
    K.theta_model = {"beta": c.real("beta", lo=0.05, hi=0.3), "gamma": c.real("gamma", lo=0.2, hi=1.0)}
    m.parameters = [K.theta_model["beta"], K.theta_model["gamma"]]
    m._stochasticParam = None
    m._intName = None
    K.x0 = [c.real("x0_%s" % s, lo=1, hi=10) for s in STATES]
    K.t0 = c.real("t0")
    K.t = []
    prev = K.t0
    for i in range(n):
        ti = c.real("t%d" % (i + 1))
        c.assume(ti > prev)
        if c.mode == "concrete":
            c.assume(ti - prev < 5)
        prev = ti
        K.t.append(ti)
    p = len(sel)
    K.sel, K.n = sel, n
    K.y = [[c.real("y%d_%d" % (i, j), lo=0.5, hi=30) for j in range(p)] for i in range(n)]
    y_arg = mat(c, K.y) if p > 1 else arr(c, [r[0] for r in K.y])
    x0_arg = arr(c, K.x0)
    t0_arg = K.t0 if c.mode == "sym" else float(K.t0)
    # the constructor's initial guess (one prior draw per parameter) is overwritten before every cost evaluation;
    # it is given a plain float here because check_array_type only accepts lists of built-in numbers
    with stubs.patched((pgabc.Parameter, "random_sample", lambda self: 0.25)):
        obj = pgabc.create_loss("SquareLoss", params, m, x0_arg, t0_arg, arr(c, K.t), y_arg, list(sel) if p > 1 else sel[0])
    K.obj, K.model = obj, m
    K.x0_arg, K.x0_before = x0_arg, [v for v in x0_arg]
    if constraint:
        K.pop = c.real("pop", lo=20, hi=40)
        K.con_state = constraint
        K.abc = pgabc.ABC(obj, params, constraint=(K.pop, constraint))
    else:
        K.pop, K.con_state = None, None
        K.abc = pgabc.ABC(obj, params)
    K.idx = [STATES.index(s) for s in sel]
    return K


def transform(K, particle):
    """the natural-scale value of every inferred quantity BY NAME (independent of par_order)"""
    out = {}
    for i, nm in enumerate(K.names):
        v = particle[i]
        out[nm] = (10 ** v) if K.log[i] else v
    return out


def expected_binding(K, particle):
    nat = transform(K, particle)
    th = {k: nat.get(k, K.theta_model[k]) for k in PARAMS}
    x0 = [nat.get(s, K.x0[j]) for j, s in enumerate(STATES)]
    if K.con_state is not None:
        j = STATES.index(K.con_state)
        x0[j] = K.pop - zsum(x0[i] for i in range(3) if i != j)
    return th, x0


def prior_density(c, K, particle, st):
    """product over the inferred quantities of the prior density (R parameterisation), by name"""
    from pygom.utilR import distn
    prod = 1
    for i, (name, dist, _, _) in enumerate(K.specs):
        x, pars = particle[i], K.prior_pars[i]
        if c.mode == "sym":
            if dist == "unif":
                d = st.uniform.pdf(x, loc=pars[0], scale=pars[1] - pars[0])
            elif dist == "gamma":
                d = st.gamma.pdf(x, pars[0], scale=1.0 / pars[1])
            else:
                d = st.norm.pdf(x, loc=pars[0], scale=pars[1])
        else:
            import scipy.stats as rst
            if dist == "unif":
                d = rst.uniform.pdf(x, loc=pars[0], scale=pars[1] - pars[0])
            elif dist == "gamma":
                d = rst.gamma.pdf(x, pars[0], scale=1.0 / pars[1])
            else:
                d = rst.norm.pdf(x, loc=pars[0], scale=pars[1])
        prod = prod * d
    return prod


def in_support(c, K, particle):
    """support membership written directly (no density): uniform -> [lo, hi]; gamma -> x >= 0 ; normal -> R"""
    conds = []
    for i, (name, dist, _, _) in enumerate(K.specs):
        x, pars = particle[i], K.prior_pars[i]
        if dist == "unif":
            conds += [x >= pars[0], x <= pars[1]]
        elif dist == "gamma":
            conds += [x >= 0]
    return conj(conds)


def recomputed_cost(c, K, book, particle):
    """cost at the particle by an independent route: bind by NAME directly in the loss object, evaluate
    the real cost, check (as C06 does) that the evaluation used that binding and the loss formula"""
    th, x0 = expected_binding(K, particle)
    obj = K.obj
    if c.mode == "sym":
        if obj._targetParam is not None:
            obj._theta = {str(k): th[str(k)] for k in PARAMS}
            full = dict(th)
        obj._x0 = arr(c, x0)
        out = obj.cost()
        integ = book.integrators[-1]
        for kind, ig, tp_, yp, val in book.probes:
            if ig is integ and kind == "f":
                c.prove(all_close(yp[:3], x0, c), "oracle evaluation starts from the particle's initial state")
                c.prove(all_close(np.asarray(val, dtype=object)[:3], sir3_rhs(yp[:3], [th["beta"], th["gamma"]]), c),
                        "oracle evaluation uses the particle's parameter values")
        rows = [book.at(integ._flow, ti) for ti in K.t]
    else:
        rows = ref_solution([th["beta"], th["gamma"]], x0, K.t0, K.t)
        out = None
    yhat = [[rows[i][k] for k in K.idx] for i in range(K.n)]
    L = LossCase()
    L.kind, L.sel, L.n, L.y = "Square", K.sel, K.n, K.y
    L.w = [[1.0] * len(K.sel) for _ in range(K.n)]
    L.sp = [[None] * len(K.sel) for _ in range(K.n)]
    total, _ = ref_cost(c, L, yhat)
    if out is not None:
        c.prove(near(out, total, c), "oracle cost == square-loss formula on the particle's trajectory")
    return total


def abc_patches(c, draws, st):
    from pygom.approximate_bayesian_computation import approximate_bayesian_computation as am
    from pygom.utilR import distn
    ps = [(am, "np", AbcNumpy(c, draws)), (am, "rmvnorm", draws.rmvnorm), (am, "dmvnorm", draws.dmvnorm),
          (distn, "np", DistnNumpy(draws))]
    if c.mode == "sym":
        ps += [(distn, "st", st), (distn, "gammaln", stubs.stub_gammaln)]
        from pygom.loss import base_loss
        ps += [(base_loss, "np", stubs.NumpyObjProxy())]
    return ps


class DistnNumpy(object):
    """`np` as seen by utilR.distn: the global generator functions are the named prior draws"""

    def __init__(self, draws):
        self.random = RandomNS(draws)
        self._d = draws

    def __getattr__(self, k):
        return getattr(np, k)


def havoc_cost(c, K):
    """cut for the whole-run harnesses: every value returned by the real cost() is replaced by a fresh symbol
    cost_k >= 0 whose defining term is kept aside.  Accept/reject decisions, tolerances and quantiles then see
    opaque costs (a superset of the real behaviours -- sound for every assertion); 'stored distance == cost
    recomputed at the particle' is discharged as  OR_k (stored == cost_k  AND  defining term_k == recomputed)."""
    K.costs = []
    if c.mode != "sym":
        return
    orig = K.obj.cost

    def cost(*a, **kw):
        real = orig(*a, **kw)
        k = len(K.costs)
        s = c.real("cost%d" % k, lo=0)
        K.costs.append((s, real))
        return s
    K.obj.cost = cost
    K.real_cost = orig


def check_particle(c, K, book, st, particle, dist, weight, tol, label, w_expected=None):
    from .stoch import unchanged
    c.prove(unchanged(K.x0_arg, K.x0_before, c), "the x0 array the caller handed to create_loss is not modified by the ABC run" + label)
    c.prove(in_support(c, K, particle), "particle lies in the support of every prior" + label)
    pd = prior_density(c, K, particle, st)
    c.prove(pd > 0, "prior density of the stored particle is positive" + label)
    if getattr(K, "costs", None):
        saved = K.obj.cost
        K.obj.cost = K.real_cost
        try:
            rc = recomputed_cost(c, K, book, particle)
        finally:
            K.obj.cost = saved
        c.prove(disj([conj([dist == s, near(term, rc, c)]) for s, term in K.costs]),
                "stored distance == cost recomputed at the stored particle" + label)
    else:
        rc = recomputed_cost(c, K, book, particle)
        c.prove(near(dist, rc, c, tol=2e-5), "stored distance == cost recomputed at the stored particle" + label)
    c.prove(dist < tol, "stored distance is below the tolerance of the generation that produced it" + label)
    c.prove(weight > 0, "weight is positive" + label)
    if w_expected is not None:
        c.prove(near(weight, w_expected(pd), c, tol=1e-6), "weight == prior density / sum_j kernel_j * w_old_j" + label)


def count_trials(draws):
    return len(draws.trials)


def wrap_prior_trials(draws, K):
    """count one trial per complete prior draw (generation 0) for the unwinding bound"""
    P = len(K.parameters)
    orig = K.parameters[0].random_sample
    first = K.parameters[0]

    def rs():
        draws._trial()
        draws.trials.append(("prior", None))
        return orig()
    first.random_sample = rs


def step_replay(h, vals, label):
    """concrete re-execution on the real code.  The counter-model's cost values belong to the uninterpreted
    trajectory, so the tolerance is re-positioned relative to the REAL cost of the trial: first as in the
    model, then exactly at the real cost of the accepted trial (boundary), then just above it."""
    tried = []
    c0, status, exc = sym.run_concrete(h, vals, 2e-5)
    tried.append({"tol": "model", "status": status, "failed": c0.failed[:6]})
    hit = lambda cc: (label in cc.failed) or (label == "*" and bool(cc.failed))
    if hit(c0):
        return True, {"tries": tried, "failed": c0.failed[:6]}
    v1 = dict(vals)
    v1["tol_override"] = 1e300
    c1, status, exc = sym.run_concrete(h, v1, 2e-5)
    costs = [e[1] for e in c1.events if isinstance(e, tuple) and e[0] == "accepted_cost"]
    tried.append({"tol": "inf", "status": status, "failed": c1.failed[:6], "cost": costs})
    if hit(c1):
        return True, {"tries": tried, "failed": c1.failed[:6]}
    for cst in costs:
        for tolv in (cst, cst * (1 + 1e-9) + 1e-300, 2 * cst + 1.0):
            v2 = dict(vals)
            v2["tol_override"] = tolv
            c2, status, exc = sym.run_concrete(h, v2, 2e-5)
            tried.append({"tol": tolv, "status": status, "failed": c2.failed[:6]})
            if hit(c2):
                return True, {"tries": tried, "failed": c2.failed[:6]}
    return False, {"tries": tried}


# ---------------------------------------------------------------------------------------------
# H17a: one particle of one generation from an ARBITRARY previous generation (inductive step)
# ---------------------------------------------------------------------------------------------
def step_unit(prior_set, sel, generation, constraint=None, N=2, max_rej=2, n=2, nan_first=False):
    """nan_first: a labelled float probe outside the real-arithmetic claim -- the loss returns NaN for the first trial inside
    the prior support (e.g. a Poisson loss whose predicted mean dipped below zero); such a trial must not be accepted"""
    def h(c):
        draws = Draws(c, max_rej + 1)
        st = stubs.StatsStub(c, closed_forms=False, support=True) if c.mode == "sym" else None
        ctxs = [stubs.patched(*abc_patches(c, draws, st))]
        if c.mode == "sym":
            ctxs.append(stubs.integrator_stubs(c, eig="fixed", keyed="semantic"))
        with ctxs[0]:
            book = ctxs[1].__enter__() if len(ctxs) > 1 else None
            try:
                K = build(c, prior_set, sel, n, constraint, draws)
                abc = K.abc
                P = abc.numParam
                c.prove(P == len(K.names), "numParam counts the inferred parameters and initial values")
                wrap_prior_trials(draws, K)
                abc.N = N
                if nan_first:
                    orig_cost, seen = K.obj.cost, {"k": 0}

                    def cost_nan_first(*a, **kw):
                        seen["k"] += 1
                        v = orig_cost(*a, **kw)
                        return float("nan") if seen["k"] == 1 else v
                    K.obj.cost = cost_nan_first
                tol = c.real("tol", lo=0, lo_strict=True)
                if c.mode == "concrete" and "tol_override" in c.values:
                    tol = float(c.values["tol_override"])
                res_old = mat(c, [[c.real("old%d_%d" % (i, j), lo=-3, hi=5) for j in range(P)] for i in range(N)])
                w_raw = [c.real("wold%d" % i, lo=0, lo_strict=True, hi=1) for i in range(N)]
                tot = zsum(w_raw)
                w_old = arr(c, [w / tot for w in w_raw])
                sigma_list = [np.eye(P) for _ in range(N)]
                out = abc._perform_generation(generation=generation, sigma_list=sigma_list, tolerance=tol,
                                              par_update=abc._get_update_function(), res_old=res_old, w_old=w_old)
                c.reachable("particle accepted")
                weight, rejections, trial, cost = out
                if nan_first:
                    isnan = isinstance(cost, float) and cost != cost
                    c.prove(not isnan, "a trial whose cost is not a number (NaN) is not accepted")
                    if isnan:
                        return
                if c.mode == "concrete":
                    c.events.append(("accepted_cost", float(cost)))
                trial = list(np.asarray(trial, dtype=object).ravel())
                c.prove(len(trial) == P, "one value per inferred quantity")
                c.prove(rejections == len(draws.trials) - 1, "rejection count == trials - 1")
                if generation == 0:
                    wexp = lambda pd: pd
                else:
                    ker = draws.kernels[-1]
                    c.prove(all_close(np.asarray(ker["mean"], dtype=object).ravel(), trial, c) and
                            all_close(np.asarray(ker["x"], dtype=object), res_old, c),
                            "kernel density evaluated between the accepted particle and the previous generation")
                    wexp = lambda pd: pd / zsum(ker["vals"][j] * w_old[j] for j in range(N))
                check_particle(c, K, book, st, trial, cost, weight, tol, "", wexp)
            finally:
                if book is not None:
                    ctxs[1].__exit__(None, None, None)
    return Unit("C17.step[%s,obs=%s,gen=%d,constraint=%s%s]" % (prior_set, "+".join(sel), generation, constraint, ",first cost NaN" if nan_first else ""), h,
                bounds={"priors": [list(map(str, s)) for s in PRIOR_SETS[prior_set]], "observed_states": list(sel), "generation": generation,
                        "previous_generation_size": N, "max_rejections": max_rej, "observation_times": n,
                        "constraint": constraint}, tol=2e-5, max_paths=600, replay=lambda vals, label: step_replay(h, vals, label))


# ---------------------------------------------------------------------------------------------
# H17b: whole runs (get / continue) with N particles and G generations
# ---------------------------------------------------------------------------------------------
def run_unit(prior_set, sel, mode, N=2, G=2, M=None, cont=False, extra_trials=1, entry="get_posterior_sample", n=2, picks=None):
    """mode: 'rejection' (G=1) | 'tol_list' | 'quantile'"""
    def h(c):
        total_particles = N * ((1 if mode == "rejection" else G) + (1 if cont else 0))
        draws = Draws(c, total_particles + extra_trials, dict(enumerate(picks)) if picks else None)
        st = stubs.StatsStub(c, closed_forms=False, support=True) if c.mode == "sym" else None
        ctxs = [stubs.patched(*abc_patches(c, draws, st))]
        if c.mode == "sym":
            ctxs.append(stubs.integrator_stubs(c, eig="fixed", keyed="semantic"))
        with ctxs[0]:
            book = ctxs[1].__enter__() if len(ctxs) > 1 else None
            try:
                K = build(c, prior_set, sel, n, None, draws)
                abc = K.abc
                wrap_prior_trials(draws, K)
                havoc_cost(c, K)
                run = getattr(abc, entry)
                tol0 = c.real("tol", lo=0, lo_strict=True)
                q = None
                if mode == "rejection":
                    run(N, tol0, G=1, M=M)
                    gens = 1
                elif mode == "tol_list":
                    tols = [tol0]
                    for g in range(1, G):
                        tg = c.real("tol_g%d" % g, lo=0, lo_strict=True)
                        c.assume(tg <= tols[-1])
                        tols.append(tg)
                    run(N, tols, G=G, M=M)
                    gens = G
                else:
                    q = c.real("q", lo=0, hi=1, lo_strict=True, hi_strict=True)
                    run(N, tol0, G=G, q=q, M=M)
                    gens = G
                c.reachable("run completed")
                tl = list(np.asarray(abc.tolerances, dtype=object).ravel())
                c.prove(len(tl) == gens, "one tolerance per generation")
                c.prove(close(tl[0], tol0, c), "first tolerance is the one supplied")
                if mode == "tol_list":
                    c.prove(all_close(tl, tols, c), "generation g uses the g-th supplied tolerance")
                if mode == "quantile":
                    c.prove(conj([tl[g] <= tl[g - 1] for g in range(1, gens)]), "quantile-scheduled tolerances never increase")
                    c.prove(abc.next_tol <= tl[-1], "next_tol does not exceed the last tolerance")
                c.prove(close(abc.final_tol, tl[-1], c), "final_tol is the tolerance of the last generation")
                for i in range(N):
                    check_particle(c, K, book, st, list(abc.res[i]), abc.dist[i], abc.w[i], tl[-1], " [particle %d]" % i)
                if cont:
                    prev_final = abc.final_tol
                    if mode == "quantile":
                        t2 = abc.next_tol
                        abc.continue_posterior_sample(N, t2, G=1, q=q, M=M)
                    else:
                        t2 = c.real("tol_cont", lo=0, lo_strict=True)
                        c.assume(t2 <= prev_final)
                        abc.continue_posterior_sample(N, t2, G=1, M=M)
                    c.reachable("continued run completed")
                    tl2 = list(np.asarray(abc.tolerances, dtype=object).ravel())
                    c.prove(close(tl2[0], t2, c) and len(tl2) == 1, "continued run starts at the supplied tolerance")
                    c.prove(tl2[0] <= prev_final, "tolerance of the continued run does not exceed the previous final tolerance")
                    for i in range(N):
                        check_particle(c, K, book, st, list(abc.res[i]), abc.dist[i], abc.w[i], tl2[-1], " [continued, particle %d]" % i)
            finally:
                if book is not None:
                    ctxs[1].__exit__(None, None, None)
    return Unit("C17.run[%s,%s,obs=%s,mode=%s,N=%d,G=%d,M=%s,continue=%s,picks=%s]" % (entry, prior_set, "+".join(sel), mode, N, G, M, cont, "any" if not picks else "".join(map(str, picks))), h,
                bounds={"priors": [list(map(str, s)) for s in PRIOR_SETS[prior_set]], "observed_states": list(sel), "N": N,
                        "generations": 1 if mode == "rejection" else G, "M": M, "continued": cont,
                        "rejections_in_total": extra_trials, "observation_times": n,
                        "resampling_indices": "symbolic" if not picks else "first %d fixed to %s (the sibling units cover the other values)" % (len(picks), list(picks))},
                tol=2e-5, max_paths=4000, time_budget_s=2400)


def plot_unit(prior_set, sel=("J",)):
    """Looking at a posterior must not change it: after a run, plot_pointwise_predictions() (matplotlib replaced by a
    dummy, the point-wise median / quantile summaries -- not a subject of the property -- cut to zeros) must leave the
    stored particles, distances and weights as they were, and the particles must still pass every per-particle check."""
    def h(c):
        from pygom.approximate_bayesian_computation import approximate_bayesian_computation as am
        draws = Draws(c, 2, {0: 0, 1: 0})
        st = stubs.StatsStub(c, closed_forms=False, support=True) if c.mode == "sym" else None
        ctxs = [stubs.patched(*abc_patches(c, draws, st))]
        if c.mode == "sym":
            ctxs.append(stubs.integrator_stubs(c, eig="fixed", keyed="semantic"))
        with ctxs[0]:
            book = ctxs[1].__enter__() if len(ctxs) > 1 else None
            try:
                K = build(c, prior_set, sel, 2, None, draws)
                abc = K.abc
                wrap_prior_trials(draws, K)
                havoc_cost(c, K)
                tol0 = c.real("tol", lo=0, lo_strict=True)
                abc.get_posterior_sample(2, tol0, G=1)
                c.reachable("run completed")
                snap = [[v for v in np.asarray(a, dtype=object).ravel()] for a in (abc.res, abc.dist, abc.w)]

                class _Anything(object):
                    def __getattr__(self_, k):
                        return self_

                    def __call__(self_, *a, **k):
                        return self_

                    def __iter__(self_):
                        return iter(())
                dummy = _Anything()
                dummy.axes = []
                mpl = _Anything()
                mpl.pyplot = _Anything()
                mpl.pyplot.subplots = lambda *a, **k: (dummy, dummy)
                npx = am.np

                def summary(a, *args, **kw):
                    a = np.asarray(a, dtype=object)
                    out = np.empty(a.shape[1:], dtype=object)
                    out.fill(0)
                    return out
                with stubs.patched((am, "matplotlib", mpl), (npx, "median", summary), (npx, "quantile", summary)):
                    saved_cost = K.obj.cost
                    abc.plot_pointwise_predictions()
                now = [[v for v in np.asarray(a, dtype=object).ravel()] for a in (abc.res, abc.dist, abc.w)]
                for nm, a0, a1 in zip(("particles", "distances", "weights"), snap, now):
                    c.prove(len(a0) == len(a1) and all_close(a1, a0, c), "the stored %s are unchanged by plot_pointwise_predictions()" % nm)
                for i in range(2):
                    c.prove(in_support(c, K, list(abc.res[i])), "particle %d still lies in the support of every prior after plotting" % i)
            finally:
                if book is not None:
                    ctxs[1].__exit__(None, None, None)
    return Unit("C17.plot_leaves_posterior[%s,obs=%s]" % (prior_set, "+".join(sel)), h,
                bounds={"priors": [list(map(str, s_)) for s_ in PRIOR_SETS[prior_set]], "N": 2, "generations": 1}, tol=2e-5, max_paths=300)


def guard_unit():
    """continue_posterior_sample refuses a tolerance above the previous final tolerance, a different N, and a first call"""
    def h(c):
        draws = Draws(c, 6)
        st = stubs.StatsStub(c, closed_forms=False, support=True) if c.mode == "sym" else None
        ctxs = [stubs.patched(*abc_patches(c, draws, st))]
        if c.mode == "sym":
            ctxs.append(stubs.integrator_stubs(c, eig="fixed", keyed="semantic"))
        with ctxs[0]:
            book = ctxs[1].__enter__() if len(ctxs) > 1 else None
            try:
                K = build(c, "gb_unif", ("J",), 2, None, draws)
                abc = K.abc
                wrap_prior_trials(draws, K)
                havoc_cost(c, K)
                raised = False
                try:
                    abc.continue_posterior_sample(1, 1.0)
                except (AssertionError, AttributeError):
                    raised = True
                c.prove(raised, "continue before get is refused")
                tol0 = c.real("tol", lo=0, lo_strict=True)
                abc.get_posterior_sample(1, tol0, G=1)
                t2 = c.real("tol_cont", lo=0, lo_strict=True)
                c.assume(t2 > tol0)
                raised = False
                try:
                    abc.continue_posterior_sample(1, t2, G=1)
                except AssertionError:
                    raised = True
                c.prove(raised, "a continued run with a tolerance above the previous final tolerance is refused")
                raised = False
                try:
                    abc.continue_posterior_sample(2, tol0, G=1)
                except AssertionError:
                    raised = True
                c.prove(raised, "a continued run with a different sample size is refused")
            finally:
                if book is not None:
                    ctxs[1].__exit__(None, None, None)
    return Unit("C17.continue_guards", h, bounds={"N": 1}, max_paths=200)


class C17(Check):
    id = "C17"
    level = "model_checking"
    explanation = ("One particle of one generation of the real ABC._perform_generation from an ARBITRARY previous generation (symbolic previous "
                   "particles, weights, tolerance; prior draws / perturbation-kernel draws / kernel densities / resampling index symbolic; rejection "
                   "loop unwound) -- an inductive step over generations -- plus whole runs of get_posterior_sample(_original) and "
                   "continue_posterior_sample (rejection, tolerance list, quantile schedule, nearest-neighbour kernels) with N particles and G "
                   "generations.  For every accepted/stored particle z3 decides: it lies in the support of every prior and its prior density "
                   "product is positive; the stored distance equals the real cost re-evaluated at the stored particle bound BY NAME (log-scale "
                   "transform, parameter/initial-value routing and the population constraint are therefore checked independently of par_order) "
                   "and is strictly below the tolerance of the generation that produced it; the weight equals prior density / sum_j kernel_j "
                   "w_j and is positive; quantile-scheduled tolerances never increase; continued runs are refused above the previous tolerance.  "
                   "Looking at a posterior (plot_pointwise_predictions) leaves particles, distances and weights unchanged; a labelled float probe: a NaN "
                   "cost is never accepted.")
    stubs = ["numpy global RNG (prior samplers) -> named draws with the sampler's range contract",
             "rmvnorm -> arbitrary real vector; dmvnorm -> arbitrary positive values; np.random.choice -> arbitrary index",
             "scipy.stats densities: uniform in closed form, gamma/normal uninterpreted with their support (pdf > 0 iff inside)",
             "np.quantile -> sort + linear interpolation model (numpy's default method); np.einsum/np.cov models for object arrays",
             "scipy.integrate.ode contract; flows are uninterpreted functions of (t; f(x0), x0, t0): same ODE and initial condition => same trajectory"]
    assumptions = ["floats as reals: weights finite follows from positive kernel sums (underflow of dmvnorm to 0 is outside the claim)",
                   "loss object built by create_loss (target_param in the order of the Parameter list)",
                   "rejection loop: at most the stated number of rejections explored explicitly (every iteration is identical)",
                   "convergence / mixing of ABC-SMC is not a subject of the property"]

    def units(self, tier, seed):
        us = [guard_unit()]
        quick_steps = [("gb_unif", ("J",), 0, None), ("gb_unif", ("R", "J"), 1, None), ("b_log_g_gamma", ("J",), 1, None),
                       ("g_R_b_S", ("J",), 1, None), ("b_J_log", ("R",), 0, "S"), ("g_only", ("J",), 1, None),
                       ("J_blog_g", ("J",), 0, None), ("Rlog_S_g", ("J", "S"), 1, None)]
        steps = list(quick_steps)
        if tier != "quick":
            steps += [("b_norm_g_log", ("J", "S"), 1, None), ("b_norm_g_log", ("J",), 0, None), ("g_R_b_S", ("R", "J"), 0, None),
                      ("b_J_log", ("J",), 1, "R"), ("b_log_g_gamma", ("S", "J"), 0, None), ("g_R_b_S", ("S",), 1, "J"),
                      ("J_blog_g", ("R", "J"), 1, None), ("Rlog_S_g", ("J",), 0, "J")]
        for ps, sel, g, con in steps:
            us.append(step_unit(ps, sel, g, con, max_rej=1 if tier == "quick" else 2))
        us.append(plot_unit("b_log_g_gamma"))
        # float probe (outside the real-arithmetic claim, labelled): the first in-support trial costs NaN
        us.append(step_unit("gb_unif", ("J",), 0, None, max_rej=1, nan_first=True))
        us.append(step_unit("gb_unif", ("J",), 1, None, max_rej=1, nan_first=True))
        us.append(run_unit("gb_unif", ("J",), "rejection", N=2))
        pp2 = list(itertools.product(range(2), repeat=2))
        for pk in pp2:
            us.append(run_unit("gb_unif", ("J",), "quantile", N=2, G=2, extra_trials=0, picks=pk))
        if tier != "quick":
            for pk in pp2:
                us.append(run_unit("gb_unif", ("J",), "tol_list", N=2, G=2, extra_trials=0, picks=pk))
                us.append(run_unit("gb_unif", ("J",), "quantile", N=2, G=2, M=1, extra_trials=0, picks=pk))
                us.append(run_unit("b_log_g_gamma", ("J",), "quantile", N=2, G=2, extra_trials=0, picks=pk))
                us.append(run_unit("gb_unif", ("J",), "quantile", N=2, G=2, extra_trials=0, entry="get_posterior_sample_original", picks=pk))
            # continued runs: two generations + continuation with two particles (three nested resampling levels)
            # needed more than 25 min per resampling case with either schedule and is not run.  The continuation is
            # explored after a one-generation run (N=2, every resampling case, two prior families) and after a
            # quantile-scheduled two-generation run with one particle; rejected trials inside whole continued runs are
            # left to the one-particle step units (max_rej) -- with one spare trial 92% of the paths ended in the unwinding cut
            for pk in itertools.product(range(2), repeat=2):
                us.append(run_unit("gb_unif", ("J",), "rejection", N=2, extra_trials=0, cont=True, picks=pk))
            us.append(run_unit("gb_unif", ("J",), "quantile", N=1, G=2, extra_trials=1, cont=True))
            for pk in pp2:
                us.append(run_unit("g_R_b_S", ("J",), "rejection", N=2, extra_trials=0, cont=True, picks=pk))
        return us


CHECK = C17()
