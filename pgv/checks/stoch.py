"""Shared harness pieces for the stochastic-simulation properties (C04, C05, C10, C11, C15, C16)."""
import contextlib
import numpy as np
import z3

from .. import sym, stubs
from ..sym import Sym, SymBool, symarray, all_close, close


def zsum(xs):
    acc = 0
    for v in xs:
        acc = acc + v
    return acc


def conj(conds):
    zs = []
    for cnd in conds:
        if isinstance(cnd, SymBool):
            zs.append(cnd.z)
        elif not cnd:
            return False
    if not zs:
        return True
    return SymBool(z3.And(*zs)) if len(zs) > 1 else SymBool(zs[0])


def disj(conds):
    zs = []
    for cnd in conds:
        if isinstance(cnd, SymBool):
            zs.append(cnd.z)
        elif cnd:
            return True
    if not zs:
        return False
    return SymBool(z3.Or(*zs)) if len(zs) > 1 else SymBool(zs[0])


def implies(a, b):
    if isinstance(a, (bool, np.bool_)):
        return b if a else True
    bz = b.z if isinstance(b, SymBool) else z3.BoolVal(bool(b))
    return SymBool(z3.Implies(a.z, bz))


def arr(c, vals):
    """vector of the right flavour for the mode"""
    if c.mode == "sym":
        return symarray(list(vals))
    return np.array([float(v) for v in vals], dtype=float)


def mat(c, rows):
    if c.mode == "sym":
        a = np.empty((len(rows), len(rows[0]) if rows else 0), dtype=object)
        for i, r in enumerate(rows):
            for j, v in enumerate(r):
                a[i, j] = v
        return a
    return np.array([[float(v) for v in r] for r in rows], dtype=float)


class ReplayStream(object):
    """concrete-mode stand-in for numpy's global generator: returns the recorded draws
    (every value in the support is reachable by the real generator)"""

    def __init__(self, c, tag):
        self.c = c
        self.tag = tag
        self.n = 0
        self.log = []

    def _next(self, kind):
        k = self.n
        self.n += 1
        return "%s_%s%d" % (self.tag, kind, k)

    def exponential(self, scale=1.0, size=None):
        out = []
        for _ in range(size or 1):
            nm = self._next("E")
            out.append(scale * self.c.real(nm, lo=0, lo_strict=True))
            self.log.append(("exponential", nm, scale))
        return np.array(out) if size is not None else out[0]

    def poisson(self, lam=1.0, size=None):
        out = []
        for _ in range(size or 1):
            nm = self._next("P")
            out.append(self.c.int(nm, lo=0))
            self.log.append(("poisson", nm, lam))
        return np.array(out) if size is not None else out[0]

    def uniform(self, low=0.0, high=1.0, size=None):
        out = []
        for _ in range(size or 1):
            nm = self._next("U")
            out.append(low + (high - low) * self.c.real(nm, lo=0, hi=1))
            self.log.append(("uniform", nm, low, high))
        return np.array(out) if size is not None else out[0]

    def gamma(self, shape, scale=1.0, size=None):
        out = []
        for _ in range(size or 1):
            nm = self._next("G")
            out.append(scale * self.c.real(nm, lo=0, lo_strict=True))
            self.log.append(("gamma", nm, shape, scale))
        return np.array(out) if size is not None else out[0]

    def normal(self, loc=0.0, scale=1.0, size=None):
        out = []
        for _ in range(size or 1):
            nm = self._next("N")
            out.append(loc + scale * self.c.real(nm))
            self.log.append(("normal", nm, loc, scale))
        return np.array(out) if size is not None else out[0]


def make_stream(c, tag="g"):
    return stubs.Stream(c, tag) if c.mode == "sym" else ReplayStream(c, tag)


@contextlib.contextmanager
def global_rng(stream):
    """numpy's global generator functions -> stream (both modes)"""
    with stubs.patched((np.random, "exponential", stream.exponential),
                       (np.random, "poisson", stream.poisson),
                       (np.random, "uniform", stream.uniform),
                       (np.random, "gamma", stream.gamma),
                       (np.random, "normal", stream.normal)):
        yield stream


def tau_helper_stub(c, log):
    """contract of _tau_leap._cy_test_tau_leap_safety: (tau', True) with 0 < tau' <= tau"""
    def helper(x, loss_mat, rates, tau_scale, epsilon):
        k = len(log)
        if c.mode == "sym":
            f = c.real("shrink%d" % k, lo=0, hi=1, lo_strict=True)
        else:
            f = c.real("shrink%d" % k, lo=0, hi=1, lo_strict=True)
            if not (0 < f <= 1):
                f = 1.0
        log.append((tau_scale, f))
        return tau_scale * f, True
    return helper


@contextlib.contextmanager
def sym_float_shim(c, module):
    """`float(v)` written in the caller before a C boundary: identity on symbolic values"""
    if c.mode != "sym":
        yield
        return
    shim = lambda v=0.0: v if isinstance(v, Sym) else float(v)
    with stubs.patched((module, "float", shim)):
        yield


def snapshot(a):
    """the elements of an argument array before a call (objects in sym mode, floats in concrete mode)"""
    return [v for v in np.asarray(a, dtype=object).ravel()]


def unchanged(a, snap, c):
    """the callee did not modify its argument: every element is still the value it was given"""
    now = [v for v in np.asarray(a, dtype=object).ravel()]
    if len(now) != len(snap):
        return False
    if c.mode == "sym":
        return all_close(now, snap, c)
    return all(float(u) == float(v) for u, v in zip(now, snap))
