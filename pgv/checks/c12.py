"""C12 -- equivalent ways of specifying a model give the same model."""
import itertools
import numpy as np

from .. import sym, expr, s2z
from ..core import Check, Unit
from ..sym import Sym, all_close, close
from .c01 import chunks

V = expr.Var
STATES = ["X", "Y", "Z"]
PARAMS = ["a", "b", "g"]
PROCS = {
    "T": ("T", "X", "Y", V("a") * V("X") * V("Y"), "a*X*Y"),
    "B": ("B", None, "X", V("g"), "g"),
    "D": ("D", "Z", None, V("b") * V("Z"), "b*Z"),
}
# the same processes with NON-UNIT magnitudes (numeric and symbolic): only routes that carry a magnitude
MAGS = {"T": ("2", 2), "B": ("g", V("g")), "D": ("3", 3)}
MAG_ROUTES = {"T": ["event", "own_rate", "ode"], "B": ["event_dest", "event_origin", "own_rate", "ode"], "D": ["event", "own_rate", "ode"]}
ROUTES = {"T": ["event", "own_rate", "legacy", "ode"], "B": ["event_dest", "event_origin", "own_rate", "legacy", "ode"], "D": ["event", "own_rate", "legacy", "ode"]}
DECLS = ["list", "comma", "space"]


def oracle_spec(mag=False):
    mg = (lambda p: MAGS[p][1]) if mag else (lambda p: 1)
    return expr.ModelSpec("procs", STATES, PARAMS,
                          [expr.Ev(PROCS["T"][3], [expr.Tr("T", "X", "Y", magnitude=mg("T"))]), expr.Ev(PROCS["B"][3], [expr.Tr("B", destination="X", magnitude=mg("B"))]),
                           expr.Ev(PROCS["D"][3], [expr.Tr("D", origin="Z", magnitude=mg("D"))])])


def build_variant(order, routes, incremental, decl, mag=False, after_each=None):
    """returns (model, list of process names in event order or None if some process went the ode route)"""
    from pygom import SimulateOde, Transition, Event
    if decl == "list":
        st, pr = list(STATES), list(PARAMS)
    elif decl == "comma":
        st, pr = ",".join(STATES), ", ".join(PARAMS)
    else:
        st, pr = " ".join(STATES), " ".join(PARAMS)
    ev, tr, bd, od = [], [], [], []
    adders = []
    for p in order:
        kind, o, d, rate_e, rate_s = PROCS[p]
        r = routes[p]
        mkw = {"magnitude": MAGS[p][0]} if mag else {}
        ode_s = "(%s)*(%s)" % (MAGS[p][0], rate_s) if mag else rate_s
        if r in ("event", "event_dest", "event_origin"):
            if kind == "T":
                t_ = Transition(origin=o, destination=d, transition_type="T", **mkw)
            elif kind == "B":
                t_ = Transition(destination=d, transition_type="B", **mkw) if r == "event_dest" else Transition(origin=d, transition_type="B", **mkw)
            else:
                t_ = Transition(origin=o, transition_type="D", **mkw)
            obj = Event(rate=rate_s, transition_list=[t_])
            ev.append(obj)
            adders.append(("add_event", obj, p))
        elif r == "own_rate":
            if kind == "T":
                obj = Transition(origin=o, destination=d, equation=rate_s, transition_type="T", **mkw)
            elif kind == "B":
                obj = Transition(destination=d, equation=rate_s, transition_type="B", **mkw)
            else:
                obj = Transition(origin=o, equation=rate_s, transition_type="D", **mkw)
            ev.append(obj)
            adders.append(("add_event", obj, p))
        elif r == "legacy":
            if kind == "T":
                obj = Transition(origin=o, destination=d, equation=rate_s, transition_type="T")
                tr.append(obj)
                adders.append(("add_transition", obj, p))
            elif kind == "B":
                obj = Transition(origin=d, equation=rate_s, transition_type="B")
                bd.append(obj)
                adders.append(("add_birth_death", obj, p))
            else:
                obj = Transition(origin=o, equation=rate_s, transition_type="D")
                bd.append(obj)
                adders.append(("add_birth_death", obj, p))
        else:   # written out by hand as explicit ODE terms
            if kind == "T":
                objs = [Transition(origin=o, equation="-(%s)" % ode_s, transition_type="ODE"), Transition(origin=d, equation=ode_s, transition_type="ODE")]
            elif kind == "B":
                objs = [Transition(origin=d, equation=ode_s, transition_type="ODE")]
            else:
                objs = [Transition(origin=o, equation="-(%s)" % ode_s, transition_type="ODE")]
            od += objs
            for ob in objs:
                adders.append(("add_ode", ob, None))
    if incremental:
        m = SimulateOde(state=st, param=pr)
        if after_each is not None:
            from pygom.model import ode_utils as _ou
            m._SC = _ou.compileCode(backend="lambda")
        ev_order = []
        for meth, obj, p in adders:
            getattr(m, meth)(obj)
            if p is not None:
                ev_order.append(p)
            if after_each is not None:
                after_each(m)        # the user looks at the model between two incremental steps
    else:
        m = SimulateOde(state=st, param=pr, event=ev or None, transition=tr or None, birth_death=bd or None, ode=od or None)
        # constructor order: events, then legacy transitions, then births/deaths
        ev_order = [p for p in order if routes[p] in ("event", "event_dest", "event_origin", "own_rate")]
        ev_order += [p for p in order if routes[p] == "legacy" and PROCS[p][0] == "T"]
        ev_order += [p for p in order if routes[p] == "legacy" and PROCS[p][0] != "T"]
    from pygom.model import ode_utils
    m._SC = ode_utils.compileCode(backend="lambda")
    return m, ev_order


def variant_unit(variants, idx, mag=False):
    spec = oracle_spec(mag)

    def h(c):
        env = {s: c.real("x_" + s) for s in STATES}
        env["t"] = c.real("t")
        for p in PARAMS:
            env[p] = c.real("th_" + p)
        x = [env[s] for s in STATES]
        th = [env[p] for p in PARAMS]
        f_ref = [expr.ev(e, env) for e in spec.rhs()]
        J_ref = [[expr.ev(expr.d(e, s), env) for s in STATES] for e in spec.rhs()]
        rate_ref = {"T": expr.ev(PROCS["T"][3], env), "B": expr.ev(PROCS["B"][3], env), "D": expr.ev(PROCS["D"][3], env)}
        for order, routes, inc, decl in variants:
            label = "[%sorder=%s routes=%s %s decl=%s]" % ("non-unit magnitudes " if mag else "", "".join(order), ",".join("%s:%s" % (p, routes[p]) for p in "TBD"), ("incremental, evaluated after every step" if inc == "eval" else "incremental") if inc else "constructor", decl)
            if inc == "eval":
                def look(mm):
                    mm.parameters = th
                    mm.ode(x, env["t"])
                    mm.jacobian(x, env["t"])
                    if mm.num_events:
                        mm.eventRateVector(x, env["t"])
                m, ev_order = build_variant(order, routes, True, decl, mag, after_each=look)
            else:
                m, ev_order = build_variant(order, routes, inc, decl, mag)
            c.prove([str(s) for s in m.state_list] == STATES and [str(p) for p in m.param_list] == PARAMS, "%s declarations parsed to the same state/parameter lists" % label)
            m.parameters = th
            eq = m.get_ode_eqn()
            c.prove(all_close([s2z.s2z(eq[i], env) for i in range(3)], f_ref, c), "%s get_ode_eqn == the process set's ODE" % label)
            c.prove(all_close(m.ode(x, env["t"]), f_ref, c), "%s ode(x,t) identical" % label)
            c.prove(all_close(np.asarray(m.jacobian(x, env["t"]), dtype=object), J_ref, c), "%s jacobian(x,t) identical" % label)
            c.prove(m.num_events == len(ev_order), "%s one event per process entered as an event" % label)
            if m.num_events == len(ev_order) and ev_order:
                r = np.asarray(m.eventRateVector(x, env["t"]), dtype=object).ravel()
                c.prove(all_close(r, [rate_ref[p] for p in ev_order], c), "%s eventRateVector identical up to the ordering of events" % label)
    return Unit("C12.variants[%schunk %d: %d variants]" % ("magnitudes 2,g,3; " if mag else "", idx, len(variants)), h, bounds={"variants": len(variants), "processes": 3, "magnitudes": "2, g (symbolic), 3" if mag else "1"},
                program={"chunk": idx, "n": len(variants)}, n_programs=len(variants), max_paths=5)


def shared_objects_unit():
    """The user keeps the Event / Transition objects and builds TWO models from them, with a derived parameter of the
    same name defined differently in each; the first model is evaluated before the second is built.  Each model must be
    the model of ITS definition (and agree with the same process set written out as explicit ODE terms)."""
    def h(c):
        from pygom import SimulateOde, Transition, Event
        from pygom.model import ode_utils
        env = {s: c.real("x_" + s) for s in STATES}
        env["t"] = c.real("t")
        for p in PARAMS:
            env[p] = c.real("th_" + p)
        x = [env[s] for s in STATES]
        th = [env[p] for p in PARAMS]
        objs = [Event(rate="a*X*Y/N", transition_list=[Transition(origin="X", destination="Y", transition_type="T")]),
                Event(rate="b*Z*N", transition_list=[Transition(origin="Z", transition_type="D")]),
                Transition(destination="X", equation="g*N", transition_type="B")]
        defs = [("N", "X+Y", V("X") + V("Y")), ("N", "X+Y+Z", V("X") + V("Y") + V("Z"))]
        models = []
        for k, (nm, txt, e) in enumerate(defs):
            m = SimulateOde(state=list(STATES), param=list(PARAMS), derived_param=[(nm, txt)], event=list(objs))
            m._SC = ode_utils.compileCode(backend="lambda")
            m.parameters = th
            spec = expr.ModelSpec("shared%d" % k, STATES, PARAMS,
                                  [expr.Ev(V("a") * V("X") * V("Y") / V("N"), [expr.Tr("T", "X", "Y")]), expr.Ev(V("b") * V("Z") * V("N"), [expr.Tr("D", origin="Z")]),
                                   expr.Ev(V("g") * V("N"), [expr.Tr("B", destination="X")])], [], [(nm, e)])
            models.append((m, spec))
            for rnd in range(2 if k == 0 else 1):       # the first model is looked at before the second one exists
                check_one(c, m, spec, x, env, "[model %d of 2 built from the same Event objects, derived N = %s]" % (k + 1, txt))
        check_one(c, models[0][0], models[0][1], x, env, "[model 1 again, after model 2 was built and evaluated]")

    def check_one(c, m, spec, x, env, label):
        f_ref = [expr.ev(e, env) for e in spec.rhs()]
        eq = m.get_ode_eqn()
        c.prove(all_close([s2z.s2z(eq[i], env) for i in range(3)], f_ref, c), "%s get_ode_eqn == the process set's ODE" % label)
        c.prove(all_close(m.ode(x, env["t"]), f_ref, c), "%s ode(x,t) == the process set's ODE" % label)
        c.prove(all_close(np.asarray(m.jacobian(x, env["t"]), dtype=object), [[expr.ev(expr.d(e, s_), env) for s_ in STATES] for e in spec.rhs()], c), "%s jacobian(x,t)" % label)
        c.prove(all_close(np.asarray(m.eventRateVector(x, env["t"]), dtype=object).ravel(), [expr.ev(e, env) for e in spec.rates()], c), "%s eventRateVector" % label)
    return Unit("C12.shared_definition_objects", h, bounds={"models": 2, "processes": 3}, max_paths=5)


def bundled_unit():
    """One event bundling several transitions with MIXED magnitudes (2X -> Y: X loses 2, Y gains 1; Z -> 3Y), the
    transitions listed in every order inside the event, against the same process set as single-transition events and as
    explicit ODE terms: the order of transitions inside an event is a route too."""
    def h(c):
        from pygom import SimulateOde, Transition, Event
        from pygom.model import ode_utils
        env = {s_: c.real("x_" + s_) for s_ in STATES}
        env["t"] = c.real("t")
        for p_ in PARAMS:
            env[p_] = c.real("th_" + p_)
        x = [env[s_] for s_ in STATES]
        th = [env[p_] for p_ in PARAMS]
        r1, r2 = V("a") * V("X") * V("X"), V("b") * V("Z")
        f_ref = [expr.ev(e, env) for e in (-2 * r1, r1 + 3 * r2, -r2)]

        def mk(kind):
            tl1 = [Transition(origin="X", transition_type="D", magnitude="2"), Transition(destination="Y", transition_type="B")]
            tl2 = [Transition(origin="Z", transition_type="D"), Transition(destination="Y", transition_type="B", magnitude="3")]
            if kind == "reversed":
                tl1, tl2 = tl1[::-1], tl2[::-1]
            if kind in ("listed", "reversed"):
                return SimulateOde(state=list(STATES), param=list(PARAMS), event=[Event(rate="a*X*X", transition_list=tl1), Event(rate="b*Z", transition_list=tl2)])
            if kind == "single":
                return SimulateOde(state=list(STATES), param=list(PARAMS),
                                   event=[Event(rate="a*X*X", transition_list=[t_]) for t_ in tl1] + [Event(rate="b*Z", transition_list=[t_]) for t_ in tl2])
            return SimulateOde(state=list(STATES), param=list(PARAMS),
                               ode=[Transition(origin="X", equation="-2*a*X*X", transition_type="ODE"), Transition(origin="Y", equation="a*X*X + 3*b*Z", transition_type="ODE"),
                                    Transition(origin="Z", equation="-b*Z", transition_type="ODE")])
        for kind in ("listed", "reversed", "single", "ode"):
            m = mk(kind)
            m._SC = ode_utils.compileCode(backend="lambda")
            m.parameters = th
            eq = m.get_ode_eqn()
            label = "[bundled events with mixed magnitudes, %s]" % kind
            c.prove(all_close([s2z.s2z(eq[i], env) for i in range(3)], f_ref, c), "%s get_ode_eqn == the process set's ODE" % label)
            c.prove(all_close(m.ode(x, env["t"]), f_ref, c), "%s ode(x,t) identical" % label)
    return Unit("C12.bundled_events_mixed_magnitudes", h, bounds={"events": 2, "transitions_per_event": 2, "orders": "both"}, max_paths=5)


def chained_unit():
    """One event bundling two transitions that MEET in a state (Y -> Z and X -> Y fire together: Y's net change is 0), the
    transitions listed in both orders, against the same processes as single-transition events with the same rate and as explicit
    ODE terms.  Besides the ODE, the drift of the jump process, state-change matrix x event rates, must be that same right-hand
    side for every event route (the matrix has to accumulate over the transitions of an event, in either order)."""
    def h(c):
        from pygom import SimulateOde, Transition, Event
        from pygom.model import ode_utils
        env = {s_: c.real("x_" + s_) for s_ in STATES}
        env["t"] = c.real("t")
        for p_ in PARAMS:
            env[p_] = c.real("th_" + p_)
        x = [env[s_] for s_ in STATES]
        th = [env[p_] for p_ in PARAMS]
        r = V("a") * V("X") * V("Y")
        f_ref = [expr.ev(e, env) for e in (-1 * r, 0 * r, r)]

        def mk(kind):
            tl = [Transition(origin="Y", destination="Z", transition_type="T"), Transition(origin="X", destination="Y", transition_type="T")]
            if kind == "reversed":
                tl = tl[::-1]
            if kind in ("listed", "reversed"):
                return SimulateOde(state=list(STATES), param=list(PARAMS), event=[Event(rate="a*X*Y", transition_list=tl)])
            if kind == "single":
                return SimulateOde(state=list(STATES), param=list(PARAMS), event=[Event(rate="a*X*Y", transition_list=[t_]) for t_ in tl])
            return SimulateOde(state=list(STATES), param=list(PARAMS),
                               ode=[Transition(origin="X", equation="-a*X*Y", transition_type="ODE"), Transition(origin="Z", equation="a*X*Y", transition_type="ODE")])
        for kind in ("listed", "reversed", "single", "ode"):
            m = mk(kind)
            m._SC = ode_utils.compileCode(backend="lambda")
            m.parameters = th
            eq = m.get_ode_eqn()
            label = "[chained transitions in one event, %s]" % kind
            c.prove(all_close([s2z.s2z(eq[i], env) for i in range(3)], f_ref, c), "%s get_ode_eqn == the process set's ODE" % label)
            c.prove(all_close(m.ode(x, env["t"]), f_ref, c), "%s ode(x,t) identical" % label)
            if kind != "ode":
                Vm = np.asarray(m.vMat(x, env["t"]), dtype=object)
                a = np.asarray(m.eventRateVector(x, env["t"]), dtype=object).ravel()
                ok_shape = Vm.shape == (3, len(a))
                c.prove(ok_shape, "%s state-change matrix has shape (states, events)" % label)
                if ok_shape:
                    drift = [sum(Vm[i, j] * a[j] for j in range(len(a))) for i in range(3)]
                    c.prove(all_close(drift, f_ref, c), "%s state-change matrix x rates == the process set's ODE" % label)
    return Unit("C12.chained_transitions_in_one_event", h, bounds={"events": 1, "transitions_per_event": 2, "orders": "both"}, max_paths=5)


def all_variants(routes_table=None):
    routes_table = routes_table or ROUTES
    out = []
    for order in itertools.permutations("TBD"):
        for rt in itertools.product(routes_table["T"], routes_table["B"], routes_table["D"]):
            routes = dict(zip("TBD", rt))
            for inc in (False, True, "eval"):
                for decl in DECLS:
                    out.append((order, routes, inc, decl))
    return out


class C12(Check):
    id = "C12"
    level = "translation_validation"
    explanation = ("One process set {transition X->Y, birth into X, death from Z} entered through every API route per process (Event object, "
                   "Transition carrying its own rate, legacy transition/birth_death lists, birth by origin or destination, explicit ODE terms "
                   "written by hand), constructor vs incremental add_*, list/comma/space declarations and all orderings.  Every variant's "
                   "get_ode_eqn (sympy->SMT), ode and jacobian evaluators are proved equal to ONE oracle for all (x,t,theta) -- hence equal to "
                   "each other -- and the rate vector equal up to the ordering of events.  The vector-state range declaration ('y1:4') is "
                   "covered by C01's vector_states member.  One unit builds TWO models from the same Event/Transition objects (derived parameter of the same "
                   "name defined differently; first model evaluated first): each must be the model of its own definition; one unit bundles transitions with mixed "
                   "magnitudes into one event, in both orders, against single-transition events and explicit ODE terms; one unit bundles two transitions that meet in a state, in both orders, and also proves state-change matrix x rates equal to that right-hand side.")
    assumptions = ["legacy transition=/birth_death= routes carry magnitude 1 (the legacy converters rebuild the Transition without it); non-unit magnitudes (2, symbolic g, 3) are checked on every route that carries a magnitude: Event objects, rate-carrying Transitions given to event=/add_event, hand-written ODE terms", "lambdify back-end"]

    def units(self, tier, seed):
        va = all_variants()
        if tier == "quick":
            va = va[seed % 7::7]
        vm = all_variants(MAG_ROUTES)
        if tier == "quick":
            vm = vm[seed % 5::5]
        self.nV = len(va) + len(vm)
        us = [variant_unit(ch, i) for i, ch in enumerate(chunks(va, 16 if tier == "quick" else 48))]
        us += [variant_unit(ch, i, mag=True) for i, ch in enumerate(chunks(vm, 16 if tier == "quick" else 48))]
        us.append(shared_objects_unit())
        us.append(bundled_unit())
        us.append(chained_unit())
        return us

    def extra(self, tier, seed):
        return {"variants": getattr(self, "nV", 0)}, []


CHECK = C12()
