"""C20 -- curvature information matches the cost it is meant to describe."""
import numpy as np
import z3

from .. import sym, stubs, expr
from ..core import Check, Unit
from ..sym import Sym, SymBool, all_close, close, near, all_near
from .stoch import zsum, arr
from .c01 import built, point, bind
from .c06 import build_loss, loss_patches, last_flow, STATES, PARAMS
from .c07 import _first_flow_of_call, NS, NP


def jtj_unit(sel, tp, n, weighted, ts_sel=None, pre_iv=False, full=False):
    """pre_iv: the object has target_state and an initial-value evaluation (costIV elsewhere) comes first; it moves the
    object's initial state, and jtj must then describe the residuals of the cost the object computes NOW"""
    def h(c):
        free = list(tp) if tp is not None else list(PARAMS)

        def pre(L, x0_used, sym_mode):
            if not pre_iv:
                return
            moved = [c.real("pre_iv_%s" % s, lo=1, hi=10) for s in ts_sel]
            th_pre = [c.real("pre_th_%d" % k_, lo=0.1, hi=3) for k_ in range(len(L.theta))]
            L.obj.costIV(arr(c, th_pre + moved) if sym_mode else np.array([float(v) for v in th_pre + moved]))
            for s, v in zip(ts_sel, moved):
                x0_used[STATES.index(s)] = v if sym_mode else float(v)
        if c.mode == "sym":
            with stubs.integrator_stubs(c, eig="fixed") as book, stubs.patched(*loss_patches(c)):
                L = build_loss(c, "Square", sel, tp, ts_sel, n, weighted, "scalar")
                x0_used = list(L.x0)
                pre(L, x0_used, True)
                n_before = len(book.integrators)
                J = L.obj.jtj(L.theta_arg, full_output=True)[0] if full else L.obj.jtj(L.theta_arg)
                fl = None
                for ig in book.integrators[n_before:]:
                    y0 = list(np.asarray(ig._y0, dtype=object).ravel())
                    if len(y0) > NS:
                        fl = ig._flow
                        c.prove(all_close(y0[:NS], x0_used, c), "the sensitivity system behind jtj starts from the object's current initial state")
                        c.prove(all_close(y0[NS:], [0] * (len(y0) - NS), c), "the sensitivities behind jtj start from zero")
                        break
                if fl is None:
                    fl = _first_flow_of_call(book, None, c)
                rows = [book.at(fl, ti) for ti in L.t]
        else:
            # replay / fidelity: the real jtj with the real integrators; reference sensitivities from a
            # tight-tolerance integration of the hand-written SIR variational system (not through PyGOM)
            from scipy.integrate import solve_ivp
            L = build_loss(c, "Square", sel, tp, ts_sel, n, weighted, "scalar")
            x0_used = [float(v) for v in L.x0]
            pre(L, x0_used, False)
            J = L.obj.jtj(L.theta_arg, full_output=True)[0] if full else L.obj.jtj(L.theta_arg)
            b_, g_ = float(L.bound["beta"]), float(L.bound["gamma"])

            def aug(t_, z):
                S_, J_, R_ = z[:3]
                f = [-b_ * S_ * J_, b_ * S_ * J_ - g_ * J_, g_ * J_]
                Jm = np.array([[-b_ * J_, -b_ * S_, 0.0], [b_ * J_, b_ * S_ - g_, 0.0], [0.0, g_, 0.0]])
                G = np.array([[-S_ * J_, 0.0], [S_ * J_, -J_], [0.0, J_]])
                Sm = np.reshape(z[3:], (3, 2), "F")
                return np.concatenate([f, np.reshape(Jm.dot(Sm) + G, 6, "F")])
            z0 = np.concatenate([x0_used, np.zeros(6)])
            sol = solve_ivp(aug, (float(L.t0), float(L.t[-1])), z0, method="DOP853", t_eval=[float(t_) for t_ in L.t], rtol=1e-12, atol=1e-13)
            rows = [sol.y[:, i] for i in range(len(L.t))]
        c.reachable("jtj evaluated")
        J = np.asarray(J, dtype=object)
        q = len(free)
        c.prove(J.shape == (q, q), "jtj is (free parameters) x (free parameters)")
        ref = [[0 for _ in range(q)] for _ in range(q)]
        for i in range(n):
            Si = [[L.w[i][j] * rows[i][NS + PARAMS.index(free[k]) * NS + s] for k in range(q)] for j, s in enumerate(L.idx)]
            for a in range(q):
                for b in range(q):
                    ref[a][b] = ref[a][b] + zsum(Si[j][a] * Si[j][b] for j in range(len(sel)))
        if J.shape == (q, q):
            c.prove(all_close(J, ref, c, tol=2e-5), "jtj == sum over observations of outer products of the weighted sensitivities (parameters in the order supplied)")
            c.prove(all_close(J, J.T, c), "jtj is symmetric")
            if c.mode != "sym":
                return
            # positive semi-definiteness, attempted directly (sum-of-squares form; bounded solver effort)
            v = [c.real("v%d" % a) for a in range(q)]
            quad = zsum(v[a] * J[a][b] * v[b] for a in range(q) for b in range(q))
            # two steps, both decided by the solver: (i) the quadratic form of the RETURNED matrix is the sum of
            # squares of the weighted sensitivity projections (a polynomial identity); (ii) a sum of squares of
            # arbitrary reals is non-negative.  (The one-shot query 'quad >= 0' is a hard nonlinear problem whose
            # solving time depends on machine load; the split is equivalent and takes milliseconds.)
            projs = []
            for i in range(n):
                for j, s_ in enumerate(L.idx):
                    projs.append(zsum(L.w[i][j] * rows[i][NS + PARAMS.index(free[k]) * NS + s_] * v[k] for k in range(q)))
            c.prove(quad == zsum(pj * pj for pj in projs), "v' jtj v == sum of squares of the weighted sensitivity projections")
            qs = [c.real("proj%d" % k) for k in range(len(projs))]
            ok = c.prove(zsum(x_ * x_ for x_ in qs) >= 0, "a sum of squares is non-negative, hence v' jtj v >= 0 for every v (positive semi-definite)")
    return Unit("C20.jtj[states=%s,target=%s,n=%d,w=%s%s]" % ("+".join(sel), "all" if tp is None else "+".join(tp), n, weighted, (",ts=%s,after_costIV" % "+".join(ts_sel) if pre_iv else "") + (",full_output" if full else "")), h,
                bounds={"times": n, "observed_states": list(sel), "target_param": tp, "weights": "symbolic" if weighted else "unit"},
                program={"jtj": list(sel), "tp": tp}, max_paths=50, verdict_timeout_ms=30000)


def ff_exprs(spec):
    """oracle second-order right-hand side d/dtheta_b [J S_a + G_a] (total derivative), split into the
    part PyGOM implements (J.FF + S' dJ S) and the mixed terms"""
    V = expr.Var
    f = spec.rhs()
    X, P = spec.states, spec.params
    nS, nP = len(X), len(P)
    J = [[expr.d(f[i], X[j]) for j in range(nS)] for i in range(nS)]
    G = [[expr.d(f[i], P[k]) for k in range(nP)] for i in range(nS)]
    S = lambda j, a: V("s_%d_%d" % (j, a))
    FF = lambda j, a, b: V("ff_%d_%d_%d" % (j, a, b))
    impl, mixed = {}, {}
    for i in range(nS):
        for a in range(nP):
            for b in range(nP):
                t1 = expr.ZERO
                for j in range(nS):
                    t1 = expr._add(t1, expr._mul(J[i][j], FF(j, a, b)))
                t2 = expr.ZERO
                for j in range(nS):
                    for l in range(nS):
                        t2 = expr._add(t2, expr._mul(expr._mul(expr.d(J[i][j], X[l]), S(l, b)), S(j, a)))
                t3 = expr.ZERO
                for j in range(nS):
                    t3 = expr._add(t3, expr._mul(expr.d(J[i][j], P[b]), S(j, a)))
                t4 = expr.ZERO
                for l in range(nS):
                    t4 = expr._add(t4, expr._mul(expr.d(G[i][a], X[l]), S(l, b)))
                t5 = expr.d(G[i][a], P[b])
                impl[(i, a, b)] = expr._add(t1, t2)
                mixed[(i, a, b)] = expr._add(expr._add(t3, t4), t5)
    return impl, mixed


def ff_unit(spec):
    nS, nP = len(spec.states), len(spec.params)

    def h(c):
        m = built(spec)
        env, x, t, th = point(c, spec)
        bind(m, th)
        impl, mixed = ff_exprs(spec)
        z = list(x)
        for k in range(nP):
            for i in range(nS):
                env["s_%d_%d" % (i, k)] = c.real("s_%d_%d" % (i, k))
                z.append(env["s_%d_%d" % (i, k)])
        for i in range(nS):
            for a in range(nP):
                for b in range(nP):
                    env["ff_%d_%d_%d" % (i, a, b)] = c.real("ff_%d_%d_%d" % (i, a, b))
                    z.append(env["ff_%d_%d_%d" % (i, a, b)])
        from pygom.model import ode_utils
        with stubs.patched((ode_utils.scipy.sparse, "kron", lambda A, B: np.kron(np.asarray(A, dtype=object), np.asarray(B, dtype=object))),
                           (ode_utils.scipy.sparse, "eye", lambda n_: np.eye(n_, dtype=int).astype(object))) if c.mode == "sym" else stubs.patched():
            got = m.ode_and_forwardforward(arr(c, z), t)
        got = np.asarray(got, dtype=object)
        N = nS + nS * nP + nS * nP * nP
        c.prove(got.shape == (N,), "second-order augmented rhs has one entry per augmented state")
        tail = got[nS + nS * nP:]
        keys = [(i, a, b) for i in range(nS) for a in range(nP) for b in range(nP)]
        ref_impl = [expr.ev(impl[k], env) for k in keys]
        ref_full = [expr.ev(impl[k], env) + expr.ev(mixed[k], env) for k in keys]
        c.prove(all_close(tail, ref_impl, c), "second-order rhs == J.FF + S' (dJ/dx) S (the terms implemented), layout row i*nP+a, column b")
        c.prove(all_close(tail, ref_full, c), "second-order rhs == total derivative d/dtheta_b [J S_a + G_a] (mixed terms included)")
    return Unit("C20.forwardforward[%s]" % spec.name, h, bounds={"states": nS, "params": nP}, program=spec.describe(), max_paths=20)


def hessian_unit(sel, n):
    """assembly of hessian(theta) from the integrated second-order system (flow components uninterpreted)"""
    def h(c):
        if c.mode != "sym":
            return
        from pygom.loss import base_loss
        with stubs.integrator_stubs(c, eig="fixed") as book, stubs.patched(*loss_patches(c)), \
                stubs.patched((base_loss.scipy.sparse, "kron", lambda A, B: np.kron(np.asarray(A, dtype=object), np.asarray(B, dtype=object))),
                              (base_loss.scipy.sparse, "eye", lambda n_: np.eye(n_, dtype=int).astype(object))):
            L = build_loss(c, "Square", sel, None, None, n, False, "scalar")
            H = L.obj.hessian(L.theta_arg)
            fl = _first_flow_of_call(book, None, c)
            rows = [book.at(fl, ti) for ti in L.t]
        c.reachable("hessian evaluated")
        H = np.asarray(H, dtype=object)
        c.prove(H.shape == (NP, NP), "hessian is parameters x parameters")
        base = NS + NS * NP
        ref = [[0 for _ in range(NP)] for _ in range(NP)]
        for i in range(n):
            for j, s in enumerate(L.idx):
                r = L.y[i][j] - rows[i][s]
                for a in range(NP):
                    for b in range(NP):
                        Sa = rows[i][NS + a * NS + s]
                        Sb = rows[i][NS + b * NS + s]
                        xab = rows[i][base + (s * NP + a) * NP + b]
                        ref[a][b] = ref[a][b] + 2 * Sa * Sb - 2 * r * xab
        if H.shape == (NP, NP):
            c.prove(all_close(H, ref, c), "hessian == sum_ij [2 S_a S_b - 2 (y - x) d2x/dtheta_a dtheta_b] (second derivative of the square cost)")
    return Unit("C20.hessian_assembly[states=%s,n=%d]" % ("+".join(sel), n), h, bounds={"times": n, "observed_states": list(sel)},
                program={"hessian": list(sel)}, max_paths=50, replay=replay_hessian)


def replay_hessian(vals, label):
    """real code, real integrators: a model with additive parameters (its second-order system has no mixed
    terms, so it is exact) -- hessian(theta) must match central finite differences of gradient(theta)"""
    from pygom import SimulateOde, Transition, SquareLoss
    m = SimulateOde(state=["X", "Y"], param=["a", "b"],
                    ode=[Transition(origin="X", equation="-X*X + a", transition_type="ODE"),
                         Transition(origin="Y", equation="X - Y*Y*Y + b", transition_type="ODE")])
    m.parameters = [1.0, 0.5]
    t = np.array([0.5, 1.0, 1.5, 2.0])
    x0 = [0.2, 0.1]
    m.initial_values = (x0, 0.0)
    sol = m.integrate(t)
    noise = np.array([[0.1, -0.05], [-0.2, 0.1], [0.15, 0.05], [0.05, -0.1]])
    bad = {}
    th = np.array([0.8, 0.6])
    hh = 1e-5
    # one observed state, two in model order, two in NON-model order
    for sel in ("Y", ["X", "Y"], ["Y", "X"]):
        names = [sel] if isinstance(sel, str) else sel
        cols = [["X", "Y"].index(s_) for s_ in names]
        y = sol[1:, :][:, cols] + noise[:, :len(cols)]
        if len(cols) == 1:
            y = y.ravel()
        L = SquareLoss([0.8, 0.6], m, x0, 0.0, t, y, sel)
        H = L.hessian(th)
        FD = np.array([(L.sensitivity(th + hh * e) - L.sensitivity(th - hh * e)) / (2 * hh) for e in np.eye(2)])
        err = float(np.max(np.abs(H - FD)))
        if err > 1e-4:
            bad[str(sel)] = {"hessian": H.tolist(), "fd_of_gradient": FD.tolist(), "max_abs_err": err}
    return bool(bad), bad


class C20(Check):
    id = "C20"
    level = "other"
    explanation = ("jtj: the real jtj/jac/sens_to_jtj run on symbolic sensitivities (uninterpreted flow components), weights and data; z3 proves "
                   "jtj == sum_i (w_i o S_i)'(w_i o S_i) with parameters in the supplied order, symmetry entry-wise and v' jtj v >= 0.  hessian: "
                   "(i) the second-order right-hand side ode_and_forwardforward is compared with the total derivative d/dtheta_b [J S_a + G_a] "
                   "from the Expr differentiator -- z3 shows it equals exactly the two implemented terms and differs from the full derivative "
                   "whenever mixed terms are non-zero (known finding, see known_findings.json); (ii) the assembly of hessian(theta) from the "
                   "integrated second-order system is compared with the second derivative of the square cost.  The sensitivity system behind jtj must start "
                   "from the object's current initial state with zero sensitivities (also after an initial-value evaluation moved that state).")
    stubs = ["scipy.integrate.ode contract, flow components uninterpreted", "scipy.sparse.kron/eye -> dense numpy (no object dtype in scipy.sparse)", "np.linalg.eig fixed"]
    assumptions = ["integrated first/second-order sensitivities are the derivatives of the solution (ODE theory)", "floats as reals"]

    def units(self, tier, seed):
        us = [jtj_unit(("S",), None, 2, False), jtj_unit(("J", "S"), ("gamma", "beta"), 2, True), jtj_unit(("R", "J"), ("gamma",), 2, False),
              jtj_unit(("R",), None, 2, True), jtj_unit(("R", "J"), None, 3, "per_state"), jtj_unit(("J", "S"), ("beta",), 3, "scalar"),
              jtj_unit(("J", "R"), None, 2, False, ts_sel=("J",), pre_iv=True),
              # the full_output form (the one the confidence-interval code calls), every weight form
              jtj_unit(("J", "S"), ("gamma", "beta"), 2, True, full=True), jtj_unit(("R",), None, 2, "scalar", full=True), jtj_unit(("S",), None, 2, False, full=True)]
        names = ["xy_2s1e", "two_three", "ode_mixed", "bd_1s2e"] if tier == "quick" else \
            ["xy_2s1e", "two_three", "ode_mixed", "bd_1s2e", "sir", "saturating", "decay_1s1e", "exponential", "birth_by_origin"]
        for nm in names:
            us.append(ff_unit(expr.by_name(nm)))
        us.append(hessian_unit(("J", "S"), 2))
        us.append(hessian_unit(("R",), 2))
        if tier != "quick":
            us += [jtj_unit(("R", "S", "J"), ("gamma", "beta"), 3, True), hessian_unit(("R", "S", "J"), 3)]
            # every observed-state selection x target order x weight form, plain and full_output
            from .c06 import SELECTIONS, TARGETS
            seen = {u.name for u in us}
            k = 0
            for sel in SELECTIONS:
                for tp in TARGETS:
                    for full in (False, True):
                        w = [False, True, "per_state", "scalar"][k % 4]
                        k += 1
                        u = jtj_unit(tuple(sel), tuple(tp) if tp is not None else None, 2 if k % 3 else 3, w, full=full)
                        if u.name not in seen:
                            seen.add(u.name)
                            us.append(u)
            for sel in (("S",), ("J",), ("S", "R"), ("R", "J")):
                us.append(hessian_unit(sel, 2))
            us.append(jtj_unit(("S", "R"), ("gamma",), 3, True, ts_sel=("R", "S"), pre_iv=True))
        return us


CHECK = C20()
