"""C09 -- parameter values are bound to the parameters they were given for."""
import itertools
import numpy as np
import sympy

from .. import sym, expr
from ..core import Check, Unit
from ..sym import Sym, all_close, close
from .stoch import arr
from .c01 import chunks

SPEC = "two_three"          # states X,Y ; params a,b,g ; f = [-aXY + g, aXY - bY]


def forms(names):
    """accepted input forms: (label, mentioned names, builder(values: name -> number))"""
    out = []
    out.append(("list", list(names), lambda v: [v[n] for n in names]))
    out.append(("tuple", list(names), lambda v: tuple(v[n] for n in names)))
    out.append(("ndarray", list(names), lambda v: np.array([v[n] for n in names], dtype=object if any(isinstance(x, Sym) for x in v.values()) else float)))
    for perm in itertools.permutations(names):
        out.append(("pairs:" + "".join(perm), list(perm), (lambda p: (lambda v: [(n, v[n]) for n in p]))(perm)))
    out.append(("dict_str", list(names), lambda v: {n: v[n] for n in names}))
    out.append(("dict_symbol", list(names), lambda v: {sympy.Symbol(n, real=True): v[n] for n in names}))
    for r in range(1, len(names)):
        for sub in itertools.permutations(names, r):
            out.append(("partial:" + "".join(sub), list(sub), (lambda s: (lambda v: {n: v[n] for n in s}))(sub)))
    return out


def bad_inputs(names, mk):
    """inputs that must be rejected; mk(tag) gives a fresh number"""
    n = len(names)
    bad = []
    for L in list(range(0, n)) + [n + 1, n + 2]:
        bad.append(("list_len%d" % L, [mk("bl%d_%d" % (L, i)) for i in range(L)]))
    for pos in range(n):
        pairs = [(nm, mk("bp%d_%s" % (pos, nm))) for nm in names]
        pairs[pos] = ("zz", pairs[pos][1])
        bad.append(("pairs_unknown_at%d" % pos, pairs))
        dd = {nm: mk("bd%d_%s" % (pos, nm)) for nm in names[:pos]}
        dd["zz"] = mk("bd%d_zz" % pos)
        bad.append(("dict_unknown_after%d" % pos, dd))
    bad.append(("array_2d", np.array([[mk("b2_%d_%d" % (i, j)) for j in range(2)] for i in range(n)], dtype=object)))
    bad.append(("dict_too_many", {nm: mk("bt_" + nm) for nm in list(names) + ["zz"]}))
    return bad


def seq_unit(seqs, idx, with_bad):
    spec = expr.by_name(SPEC)
    names = spec.params

    def h(c):
        fm = {f[0]: f for f in forms(names)}
        for si, seq in enumerate(seqs):
            m = spec.build()
            x = [c.real("x_" + s) for s in spec.states]
            t = c.real("t")
            cur = {}
            tag = "s%d" % si
            ok_steps = 0
            originals = []
            for k, fname in enumerate(seq):
                if fname == "EVAL":
                    # compile and evaluate at the current binding (closures now exist)
                    if len(cur) == len(names):
                        m.ode(x, t)
                        m.grad(x, t)
                    continue
                if fname == "REDECLARE":
                    # the user assigns the parameter list again with the names it already has (the idiom for
                    # extending it: m.param_list = m.param_list + [...]); a no-op for the binding
                    m.param_list = [str(p_) for p_ in m.param_list]
                    continue
                if fname == "COPY":
                    # carry on with a deep copy; the original keeps ITS binding and is checked at the end too
                    import copy
                    originals.append((m, dict(cur)))
                    m = copy.deepcopy(m)
                    continue
                if fname.startswith("BAD:"):
                    mk = lambda nm: c.real("%s_%d_%s" % (tag, k, nm))
                    label, obj = [b for b in bad_inputs(names, mk) if b[0] == fname[4:]][0]
                    raised = False
                    try:
                        m.parameters = obj
                    except Exception:
                        raised = True
                    c.prove(raised, "[%s] rejected input %s raises" % ("|".join(seq), label))
                    continue
                _, mentioned, build = fm[fname]
                vals = {n: c.real("%s_%d_%s" % (tag, k, n)) for n in mentioned}
                m.parameters = build(vals)
                cur.update(vals)
                ok_steps += 1
            if len(cur) < len(names):
                continue
            env = {s: xv for s, xv in zip(spec.states, x)}
            env["t"] = t
            env.update(cur)
            c.prove(all_close([m._paramValue[m.get_param_index(n)] for n in names], [cur[n] for n in names], c),
                    "[%s] each parameter holds the last value supplied for its name" % "|".join(seq))
            f_ref = [expr.ev(e, env) for e in spec.rhs()]
            G_ref = [[expr.ev(expr.d(e, p), env) for p in names] for e in spec.rhs()]
            c.prove(all_close(m.ode(x, t), f_ref, c), "[%s] ode(x,t) uses that binding" % "|".join(seq))
            c.prove(all_close(m.grad(x, t), G_ref, c), "[%s] grad(x,t) uses that binding" % "|".join(seq))
            for m0, cur0 in originals:
                if len(cur0) < len(names):
                    continue
                env0 = dict(env)
                env0.update(cur0)
                f0 = [expr.ev(e, env0) for e in spec.rhs()]
                c.prove(all_close(m0.ode(x, t), f0, c), "[%s] the model that was copied still evaluates with its own values" % "|".join(seq))
    return Unit("C09.sequences[chunk %d: %d sequences, first=%s]" % (idx, len(seqs), "|".join(seqs[0])), h,
                bounds={"params": 3, "sequences": len(seqs), "max_length": max(len(s) for s in seqs)},
                program={"chunk": idx, "first": list(seqs[0]), "n": len(seqs)}, n_programs=len(seqs), max_paths=5)


class C09(Check):
    id = "C09"
    level = "other"
    explanation = ("The real parameters setter (format dispatch, get_param_index, _extractParamSymbol, ODEVariable.__eq__), then _getEvalParam and the "
                   "ode/grad evaluators, run with SYMBOLIC values for every accepted input form (list, tuple, ndarray, (name,value) pairs in all "
                   "permutations, dict by name, dict by Symbol, every partial dict) and every sequence of successive assignments up to the stated "
                   "length, including rejected inputs (wrong lengths, an unknown name in each position, 2-D array, too many keys) interleaved. "
                   "z3 proves that afterwards each named parameter holds the last value supplied for that name and that ode/grad evaluate with "
                   "that binding; rejected inputs must raise and must not leak into later evaluations.  Histories with evaluations and copy.deepcopy: "
                   "values assigned to a copy are used by the copy, and the model that was copied keeps evaluating with its own values.  Histories in which the "
                   "parameter list is assigned again with the names it already has.")
    assumptions = ["stochastic-parameter forms are covered by C16", "a partial update needs an earlier full assignment (otherwise unmentioned names have no value)"]

    def units(self, tier, seed):
        spec = expr.by_name(SPEC)
        fl = [f[0] for f in forms(spec.params)]
        full = [f[0] for f in forms(spec.params) if len(f[1]) == 3]
        part = [f for f in fl if f.startswith("partial")]
        bad = ["BAD:" + b[0] for b in bad_inputs(spec.params, lambda nm: 0.0)]
        seqs = [(a,) for a in full]
        seqs += [(a, b) for a in full for b in fl]
        seqs += [(a, b, d) for a in full[::3] for b in bad for d in (part[0], part[5], full[1])]
        seqs += [(b, a) for b in bad for a in full[:2]]
        # histories with evaluation and deep copies: values assigned to a copy are used by the copy (and only by it)
        for a in (full[0], full[3], "dict_str"):
            for b in (full[1], part[2], "dict_symbol", "ndarray"):
                seqs.append((a, "EVAL", "COPY", b))
                seqs.append((a, "COPY", b))
                seqs.append((a, "EVAL", "COPY", b, "EVAL", "COPY", part[0]))
        # the parameter list re-declared (same names) before / between assignments
        for a in (full[0], full[4], "dict_str", "ndarray"):
            seqs.append(("REDECLARE", a))
            for b in (part[1], full[2], "dict_symbol"):
                seqs.append((a, "REDECLARE", b))
                seqs.append((a, "EVAL", "REDECLARE", b))
        if tier != "quick":
            seqs += [(a, b, d) for a in full[::2] for b in fl[::2] for d in fl[::3]]
            seqs += [(a, p1, b, p2) for a in full[::4] for p1 in part[::3] for b in bad[::2] for p2 in part[1::4]]
            # every sequence of three accepted assignments, and rejected inputs between two partial updates
            have = set(seqs)
            seqs += [t_ for t_ in ((a, b, d) for a in full for b in fl for d in fl) if t_ not in have]
            seqs += [(a, p1, b, p2) for a in full[1::4] for p1 in part for b in bad for p2 in part[::2]]
        self.n_seq = len(seqs)
        return [seq_unit(ch, i, True) for i, ch in enumerate(chunks(seqs, 16 if tier == "quick" else 48))]

    def extra(self, tier, seed):
        return {"assignment_sequences": getattr(self, "n_seq", 0)}, []


CHECK = C09()
