"""C13 -- sensitivity systems are the variational equations of the model."""
import numpy as np

from .. import sym, expr
from ..core import Check, Unit
from ..sym import all_close
from .stoch import arr, snapshot, unchanged
from .c01 import built, point, bind


def aug_exprs(spec, by_state=False, iv=False):
    """oracle augmented right-hand side as Expr over x_i, s_i_k (and v_i_l): [f, vec(J S + G), vec_F(J S0)]"""
    V = expr.Var
    f = spec.rhs()
    X, P = spec.states, spec.params
    nS, nP = len(X), len(P)
    J = [[expr.d(f[i], X[j]) for j in range(nS)] for i in range(nS)]
    G = [[expr.d(f[i], P[k]) for k in range(nP)] for i in range(nS)]
    A = [[expr.ZERO for _ in range(nP)] for _ in range(nS)]
    for i in range(nS):
        for k in range(nP):
            acc = G[i][k]
            for j in range(nS):
                acc = expr._add(acc, expr._mul(J[i][j], V("s_%d_%d" % (j, k))))
            A[i][k] = acc
    if by_state:
        zn = ["s_%d_%d" % (i, k) for i in range(nS) for k in range(nP)]
        sens_rhs = [A[i][k] for i in range(nS) for k in range(nP)]
    else:
        zn = ["s_%d_%d" % (i, k) for k in range(nP) for i in range(nS)]
        sens_rhs = [A[i][k] for k in range(nP) for i in range(nS)]
    rhs = list(f) + sens_rhs
    names = list(X) + zn
    if iv:
        B = [[expr.ZERO for _ in range(nS)] for _ in range(nS)]
        for i in range(nS):
            for l in range(nS):
                acc = expr.ZERO
                for j in range(nS):
                    acc = expr._add(acc, expr._mul(J[i][j], V("v_%d_%d" % (j, l))))
                B[i][l] = acc
        rhs += [B[i][l] for l in range(nS) for i in range(nS)]
        names += ["v_%d_%d" % (i, l) for l in range(nS) for i in range(nS)]
    return rhs, names


def var_unit(spec, by_state, iv):
    nS, nP = len(spec.states), len(spec.params)

    def h(c):
        m = built(spec)
        env, x, t, th = point(c, spec)
        bind(m, th)
        rhs, names = aug_exprs(spec, by_state, iv)
        z = list(x)
        for nm in names[nS:]:
            env[nm] = c.real(nm)
            z.append(env[nm])
        zarr = arr(c, z)
        z_before = snapshot(zarr)
        if iv:
            got = m.ode_and_sensitivityIV(zarr, t)
            gotJ = m.ode_and_sensitivityIV_jacobian(zarr, t)
        else:
            got = m.ode_and_sensitivity(zarr, t, by_state)
            gotJ = m.ode_and_sensitivity_jacobian(zarr, t, by_state)
        c.prove(unchanged(zarr, z_before, c), "the augmented state vector handed in is not modified by the evaluators")
        ref = [expr.ev(e, env) for e in rhs]
        N = len(names)
        c.prove(np.asarray(got, dtype=object).shape == (N,), "augmented right-hand side has one entry per augmented state")
        c.prove(all_close(got, ref, c), "augmented rhs == [f, vec(J S + G)%s] in the documented layout" % (", vec_F(J S0)" if iv else ""))
        refJ = [[expr.ev(expr.d(rhs[a], names[b]), env) for b in range(N)] for a in range(N)]
        gJ = np.asarray(gotJ, dtype=object)
        c.prove(gJ.shape == (N, N), "Jacobian of the augmented system is square of the augmented size")
        if gJ.shape == (N, N):
            c.prove(all_close(gJ, refJ, c), "supplied Jacobian == derivative of the augmented rhs (by_state=%s)" % by_state, watch=None)
        if nP:
            # the parameter values are state of the model object: change them and evaluate again at the SAME point
            # (nothing computed for the old values may survive)
            env2 = dict(env)
            th2 = []
            for p_ in spec.params:
                env2[p_] = c.real("th2_" + p_)
                th2.append(env2[p_])
            bind(m, th2)
            if iv:
                got2 = m.ode_and_sensitivityIV(zarr, t)
                gotJ2 = m.ode_and_sensitivityIV_jacobian(zarr, t)
            else:
                got2 = m.ode_and_sensitivity(zarr, t, by_state)
                gotJ2 = m.ode_and_sensitivity_jacobian(zarr, t, by_state)
            c.prove(all_close(got2, [expr.ev(e, env2) for e in rhs], c), "augmented rhs at the same point after the parameter values were changed == oracle at the new values")
            gJ2 = np.asarray(gotJ2, dtype=object)
            if gJ2.shape == (N, N):
                refJ2 = [[expr.ev(expr.d(rhs[a], names[b]), env2) for b in range(N)] for a in range(N)]
                c.prove(all_close(gJ2, refJ2, c), "supplied Jacobian at the same point after the parameter values were changed == oracle at the new values", watch=None)
    return Unit("C13.%s[%s,by_state=%s]" % ("IV" if iv else "sens", spec.name, by_state), h,
                bounds={"states": nS, "params": nP, "augmented_size": nS + nS * nP + (nS * nS if iv else 0)}, program=spec.describe(), max_paths=20)


class C13(Check):
    id = "C13"
    level = "translation_validation"
    explanation = ("ode_and_sensitivity, ode_and_sensitivityIV and their *_jacobian counterparts (with sensitivity, eval_sensitivity, "
                   "sens_jacobian_state, shapeAdjust, vecToMatSens/matToVecSens under them) run on symbolic augmented vectors z, time and "
                   "parameters; the oracle is [f, vec(J S + G), vec_F(J S0)] built from the Expr differentiator in the documented layout and the "
                   "Jacobian obtained by differentiating that oracle w.r.t. every component of z.  z3 proves equality entry by entry for all "
                   "points and sensitivity values, for both arrangements, with and without parameters.  Every unit then changes the parameter VALUES and "
                   "evaluates again at the same point (nothing computed for the old values may survive) and checks that the vector handed in is unchanged.")
    assumptions = ["'integrating them yields dx/dtheta matching finite differences' = existence/uniqueness theory + C02's integrator assumption (not sampled)",
                   "floats as reals; denominators non-zero"]

    def units(self, tier, seed):
        names = ["decay_1s1e", "xy_2s1e", "bd_1s2e", "two_three", "ode_mixed", "saturating"] if tier == "quick" else \
            ["decay_1s1e", "xy_2s1e", "bd_1s2e", "two_three", "ode_mixed", "saturating", "sir", "sir_mag", "exponential", "periodic", "derived_nested", "four_one", "sir_bd_multi"]
        us = []
        for nm in names:
            sp = expr.by_name(nm)
            us.append(var_unit(sp, False, False))
            us.append(var_unit(sp, True, False))
            us.append(var_unit(sp, False, True))
        us.append(var_unit(expr.by_name("three_zero"), False, True))
        if tier != "quick":
            for sp in expr.generate(seed, 24):
                if len(sp.states) <= 3 and 1 <= len(sp.params) <= 3:
                    for u in (var_unit(sp, False, False), var_unit(sp, True, False), var_unit(sp, False, True)):
                        u.optional = True
                        us.append(u)
            # the library's own catalogue (small members): read back from the real objects
            for nm in ("SIR", "SIS", "SIR_Birth_Death", "Lotka_Volterra", "FitzHugh", "SIS_Periodic", "Robertson"):
                if nm in expr.CATALOGUE:
                    try:
                        sp = expr.catalogue(nm)
                    except Exception:
                        continue
                    if len(sp.states) <= 3 and 1 <= len(sp.params) <= 4:      # (no parameters: no forward sensitivities to ask for)
                        for u in (var_unit(sp, False, False), var_unit(sp, True, False)):
                            u.optional = True
                            us.append(u)
        return us


CHECK = C13()
