"""C04 -- every simulated path is a legal walk of the model's events.
Also hosts the one-step harnesses reused by C05 (first-reaction map), C10 (conservation)
and C11 (limits)."""
import os
import numpy as np
import z3

from .. import sym, stubs, expr
from ..core import Check, Unit
from ..sym import Sym, SymBool, all_close, close
from .stoch import (zsum, conj, disj, implies, arr, mat, make_stream, global_rng, tau_helper_stub,
                    sym_float_shim)

LIMIT_KINDS = ["none", "lower", "upper", "both"]


def sym_limits(c, S, mode):
    """mode 'default' -> (0, None) for every state (PyGOM's default); 'sym' -> symbolic kinds and values"""
    lims = []
    for i in range(S):
        if mode == "default":
            lims.append((0, None))
            continue
        k = c.choice("limkind%d" % i, 4)
        lo = c.real("lo%d" % i)
        hi = c.real("hi%d" % i)
        c.assume(lo <= hi)
        lims.append([(None, None), (lo, None), (None, hi), (lo, hi)][k])
    return lims


def within(xv, lims):
    conds = []
    for i, (lo, hi) in enumerate(lims):
        if lo is not None:
            conds.append(xv[i] >= lo)
        if hi is not None:
            conds.append(xv[i] <= hi)
    return conj(conds)


def step_inputs(c, S, E, conserve, vmax=3):
    x = arr(c, [c.intreal("x%d" % i, lo=0) for i in range(S)])
    t = c.real("t")
    V = mat(c, [[c.intreal("v%d_%d" % (i, j), lo=-vmax, hi=vmax) for j in range(E)] for i in range(S)])
    if conserve:
        for j in range(E):
            c.assume(close(zsum(V[i, j] for i in range(S)), 0, c))
    r = arr(c, [c.real("r%d" % j, lo=0) for j in range(E)])
    return x, t, V, r


def first_reaction_unit(S, E, lim_mode="default", conserve=False, asserts=("walk",), tag="C04"):
    from pygom.model import stochastic_simulation as ss

    def h(c):
        x, t, V, r = step_inputs(c, S, E, conserve)
        lims = sym_limits(c, S, lim_mode)
        if "limits" in asserts:
            c.assume(within(x, lims))
        x_in = [v for v in x]
        stream = make_stream(c)
        with global_rng(stream):
            out = ss.firstReaction(x, lims, t, lambda xx, tt: V, lambda xx, tt: r)
        c.prove(len(out) == 5, "first-reaction step returns (t, dt, x, counts, success)")
        if len(out) != 5:
            return
        t_new, dt, x_new, jumps, ok = out
        c.reachable("firstReaction returned")
        if isinstance(x_new, int) and ok is False:
            # "nothing can fire"
            c.prove(conj([rj == 0 for rj in r]), "nothing-can-fire return only when every rate is zero")
            return
        c.prove(disj([rj > 0 for rj in r]), "a step is attempted only when some rate is positive")
        positive = [j for j in range(E) if bool(r[j] > 0)]
        if "map" in asserts:
            c.prove(len(stream.log) == len(positive), "exactly one exponential draw per positive-rate event, none for zero-rate events")
            for m_, j in enumerate(positive):
                if m_ < len(stream.log):
                    c.prove(close(stream.log[m_][2] * r[j], 1, c), "draw %d is Exp with scale 1/rate of its own event" % m_)
        idx = [j for j, v in enumerate(jumps) if v == 1]
        c.prove(len(idx) == 1 and all(v in (0, 1) for v in jumps) and len(jumps) == E, "exactly one event per exact step, counts are 0/1")
        if len(idx) != 1:
            return
        i = idx[0]
        proposed = [x_in[s] + V[s, i] for s in range(S)]
        if ok:
            c.prove(all_close(x_new, proposed, c), "state change == state-change matrix x counts")
            c.prove(close(t_new, t + dt, c), "t' == t + dt")
            c.prove(dt > 0, "dt > 0 (times strictly increase)")
            c.prove(r[i] > 0, "the event that fired has a positive rate")
            if "limits" in asserts:
                c.prove(within(x_new, lims), "accepted state is within the declared limits")
            if "conserve" in asserts:
                c.prove(close(zsum(x_new), zsum(x_in), c), "total population unchanged by an exact step")
            if "map" in asserts and i in positive and len(stream.log) == len(positive):
                ei = c.real(stream.log[positive.index(i)][1], lo=0, lo_strict=True)
                c.prove(close(dt * r[i], ei, c), "dt == E_i / r_i (its own draw)")
                for m_, j in enumerate(positive):
                    ej = c.real(stream.log[m_][1], lo=0, lo_strict=True)
                    c.prove(dt * r[j] <= ej if c.mode == "sym" else dt * r[j] <= ej * (1 + 1e-9), "fired event has the earliest clock (vs event %d)" % j)
        else:
            c.prove(x_new is x, "rejected step returns the unchanged state object")
            c.prove(all_close(x_new, x_in, c), "rejected step leaves the state unchanged")
            c.prove(close(t_new, t, c), "rejected step leaves time unchanged")
            if "limits" in asserts:
                c.prove(~within(proposed, lims) if isinstance(within(proposed, lims), SymBool) else (not within(proposed, lims)),
                        "a step is rejected only if the proposed state leaves the limits")
        if "map" in asserts:
            for j in range(E):
                c.witness(conj([r[j] > 0]), "event %d can have a positive rate" % j)
    return Unit("%s.firstReaction[S=%d,E=%d,lims=%s,conserve=%s]" % (tag, S, E, lim_mode, conserve), h,
                bounds={"states": S, "events": E, "V_entries": "integers in [-3,3] (symbolic)", "rates": "symbolic >= 0",
                        "limits": lim_mode, "steps": 1}, max_paths=20000)


def tau_leap_unit(S, E, pre_tau, lim_mode="default", conserve=False, asserts=("walk",), tag="C04"):
    from pygom.model import stochastic_simulation as ss

    def h(c):
        x, t, V, r = step_inputs(c, S, E, conserve)
        lims = sym_limits(c, S, lim_mode)
        if "limits" in asserts:
            c.assume(within(x, lims))
        x_in = [v for v in x]
        mu = arr(c, [c.real("mu%d" % j) for j in range(E)])
        s2 = arr(c, [c.real("s2_%d" % j, lo=0) for j in range(E)])
        pure = arr(c, [0 if conserve else c.real("pure%d" % i) for i in range(S)]) if c.mode == "sym" else \
            np.array([0.0 if conserve else c.real("pure%d" % i) for i in range(S)])
        eps = c.real("eps", lo=0, hi=1, lo_strict=True, hi_strict=True)
        pt = c.real("pre_tau", lo=0, lo_strict=True) if pre_tau else None
        react = np.ones((S, E), int)
        hlog = []
        stream = make_stream(c)
        with global_rng(stream), sym_float_shim(c, ss), \
                stubs.patched((ss, "_cy_test_tau_leap_safety", tau_helper_stub(c, hlog))):
            out = ss.tauLeap(x, lims, t, lambda xx, tt: V, react, lambda xx, tt: r,
                             lambda xx, tt: mu, lambda xx, tt: s2, lambda xx, tt: pure,
                             epsilon=eps, seed=None, pre_tau=pt)
        c.prove(len(out) == 5, "tau-leap step returns (t, dt, x, counts, success)")
        if len(out) != 5:
            return
        t_new, tau, x_new, jumps, ok = out
        c.reachable("tauLeap returned")
        if isinstance(x_new, int) and ok is False:
            c.prove(conj([rj == 0 for rj in r]), "nothing-can-fire return only when every rate is zero")
            return
        c.prove(len(jumps) == E, "one count per event")
        c.prove(len(stream.log) == E, "one Poisson draw per event")
        for j in range(min(E, len(stream.log))):
            c.prove(close(stream.log[j][2], tau * r[j], c), "count %d ~ Poisson(tau * rate_%d)" % (j, j))
        c.prove(conj([jj >= 0 for jj in jumps]), "event counts are non-negative integers")
        proposed = [x_in[s] + zsum(V[s, j] * jumps[j] for j in range(E)) + pure[s] * tau for s in range(S)]
        if pre_tau and hlog:
            c.prove(close(hlog[0][0], pt, c), "fixed tau is the one handed to the safety helper")
        if ok:
            c.prove(all_close(x_new, proposed, c), "state change == V x counts + tau x explicit terms")
            c.prove(close(t_new, t + tau, c), "t' == t + tau")
            c.prove(tau > 0, "tau > 0 (times strictly increase)")
            if "limits" in asserts:
                c.prove(within(x_new, lims), "accepted state is within the declared limits")
            if "conserve" in asserts:
                c.prove(close(zsum(x_new), zsum(x_in), c), "total population unchanged by a tau-leap")
        else:
            c.prove(x_new is x, "rejected leap returns the unchanged state object")
            c.prove(close(t_new, t, c), "rejected leap leaves time unchanged")
            if "limits" in asserts:
                w = within(proposed, lims)
                c.prove(~w if isinstance(w, SymBool) else (not w), "a leap is rejected only if the proposed state leaves the limits")
    return Unit("%s.tauLeap[S=%d,E=%d,pre_tau=%s,lims=%s,conserve=%s]" % (tag, S, E, pre_tau, lim_mode, conserve), h,
                bounds={"states": S, "events": E, "V_entries": "integers in [-3,3] (symbolic)", "rates": "symbolic >= 0",
                        "rate_change_mean_var": "free symbols (var >= 0): havoc of the compiled transitionMean/Var",
                        "poisson_counts": "symbolic integers >= 0", "epsilon": "(0,1)", "steps": 1}, max_paths=20000)


# ---- the loop ------------------------------------------------------------------------
def jump_unit(spec, exact, K, pre_tau=False, tag="C04", asserts=("walk",), lim_mode="default", max_paths=6000, x0_kind="sym", t0_kind="sym"):
    """real SimulateOde._jump / solve_stochast unwound K steps on a real model with compiled V and rates.
    t0_kind: 'sym' (a symbolic real standing for a numpy float64) | 'pyint' | 'pyfloat' -- the initial time as a plain
    Python number (initial_values = (x0, 0)), a type, not a value, so it is enumerated"""
    from pygom.model import simulate as simmod
    from pygom.model import stochastic_simulation as ss
    from .c01 import built
    S, E = len(spec.states), len(spec.events)

    def h(c):
        m = built(spec)
        th = [c.real("th_" + p, lo=0, lo_strict=True) for p in spec.params]
        if th:
            m.parameters = th
        m._stochasticParam = None
        t0 = c.real("t0") if t0_kind == "sym" else (0 if t0_kind == "pyint" else 0.0)
        T = c.real("T")
        c.assume(T > t0)
        t0_given = (lambda v: v) if (c.mode == "sym" or t0_kind != "sym") else np.float64
        if x0_kind == "sym":
            x0 = arr(c, [c.intreal("x%d" % i, lo=0, hi=6) for i in range(S)])
            m.initial_values = (x0, t0) if c.mode == "sym" else (np.array(x0, float), t0_given(t0))
        else:
            # typed initial state: a concrete integer-dtype array, as users write it (np.array([5, 2]))
            x0 = np.array([5, 2, 3][:S], dtype=np.int64) if x0_kind == "int64" else np.array([255, 0, 3][:S], dtype=np.uint8)   # uint8: at the edges of the dtype's range
            m.initial_values = (x0, t0_given(t0))
        if c.mode == "sym":
            m._x0 = x0
        m.pre_tau = c.real("pre_tau", lo=0, lo_strict=True) if pre_tau else None
        lims = sym_limits(c, S, lim_mode)
        m._state_lims = lims
        if "limits" in asserts:
            c.assume(within(x0, lims))
        x_in = [v for v in x0]
        calls = {"n": 0, "cut": False}
        real_fr, real_tl = ss.firstReaction, ss.tauLeap

        def fr(*a, **k):
            calls["n"] += 1
            if calls["n"] > K:
                calls["cut"] = True
                return 0, 0, 0, 0, False
            return real_fr(*a, **k)

        hav = {"n": 0}

        def tl(x, x_lims, t, scm, react, tf, tmf, tvf, pure, epsilon=0.03, seed=None, pre_tau=None):
            calls["n"] += 1
            if calls["n"] > K:
                calls["cut"] = True
                return 0, 0, 0, 0, False
            # havoc of the compiled rate-change statistics (fresh per step): sound for the bookkeeping asserted
            k_ = hav["n"]
            hav["n"] += 1
            mu = arr(c, [c.real("mu%d_%d" % (k_, j)) for j in range(E)])
            s2 = arr(c, [c.real("s2_%d_%d" % (k_, j), lo=0) for j in range(E)])
            if c.mode == "sym":
                xs = x.view(sym.SymArray) if isinstance(x, np.ndarray) and x.dtype == object else x
                tfs = lambda a, b: np.asarray(tf(a, b), dtype=object).view(sym.SymArray)
                return real_tl(xs, x_lims, t, scm, react, tfs, lambda a, b: mu, lambda a, b: s2, pure,
                               epsilon=epsilon, seed=seed, pre_tau=pre_tau)
            return real_tl(x, x_lims, t, scm, react, tf, tmf, tvf, pure, epsilon=epsilon, seed=seed, pre_tau=pre_tau)

        hlog = []
        stream = make_stream(c)
        patches = [(simmod, "firstReaction", fr), (simmod, "tauLeap", tl)]
        if c.mode == "sym":
            patches.append((ss, "_cy_test_tau_leap_safety", tau_helper_stub(c, hlog)))
            # the adaptive step-size routine is covered by the one-step harness; in the loop its
            # result is havoc'd (any tau > 0), which removes 4^E redundant path splits per step
            tcount = {"n": 0}

            def adaptive(*a, **k):
                tcount["n"] += 1
                return c.real("tau_adapt%d" % tcount["n"], lo=0, lo_strict=True)
            patches.append((ss, "_get_adaptive_tau_step", adaptive))
        with global_rng(stream), sym_float_shim(c, ss), stubs.patched(*patches):
            X, Jm, Tm, dT = m._jump(T, exact=exact, full_output=True)
        n = len(Tm)
        c.reachable("_jump returned")
        c.prove(len(X) == n and len(Jm) == n - 1 and len(dT) == n - 1, "one state row per time, one counts row per step")
        c.prove(all_close(X[0], x_in, c), "path starts at the initial state")
        c.prove(all_close(list(np.asarray(m._x0, dtype=object).ravel()), x_in, c) and all_close(list(np.asarray(x0, dtype=object).ravel()), x_in, c),
                "the simulation modifies neither the model's stored initial state nor the caller's array (a second run starts from the same state)")
        c.prove(close(Tm[0], t0, c), "path starts at the initial time")
        Vn = m.vMat(x_in, t0)
        c.prove(np.asarray(Vn, dtype=object).shape == (S, E), "state-change matrix has shape (states, events)")
        if np.asarray(Vn, dtype=object).shape == (S, E):
            # the matrix the walk is measured against is the DECLARED one (net magnitudes per state and event, from the
            # model definition), not merely whatever the model compiled: a wrong matrix makes every step "consistent"
            envV = dict(zip(spec.states, x_in)); envV["t"] = t0; envV.update(zip(spec.params, th))
            V_decl = [[expr.ev(e, envV) for e in row] for row in spec.V()]
            c.prove(all_close(np.asarray(Vn, dtype=object), np.array(V_decl, dtype=object).reshape(S, E), c),
                    "state-change matrix == declared net magnitudes")
        pure = m.pureOdeVector(x_in, t0) if not exact else None
        for k in range(1, n):
            c.prove(Tm[k] > Tm[k - 1], "times strictly increase (step %d)" % k)
            c.prove(close(Tm[k], Tm[k - 1] + dT[k - 1], c), "time advances by the reported step (step %d)" % k)
            cnt = list(Jm[k - 1])
            c.prove(len(cnt) == E, "one count per event (step %d)" % k)
            c.prove(conj([v >= 0 for v in cnt]), "counts are non-negative (step %d)" % k)
            if exact:
                c.prove(sum(1 for v in cnt if v == 1) == 1 and all(v in (0, 1) for v in cnt), "exactly one event per exact step (step %d)" % k)
            Vk = m.vMat(list(X[k - 1]), Tm[k - 1])
            inc = [zsum(Vk[s, j] * cnt[j] for j in range(E)) for s in range(S)]
            if exact:
                c.prove(all_close([X[k][s] - X[k - 1][s] for s in range(S)], inc, c), "state change == V x counts (step %d)" % k)
            else:
                # a tau step adds tau*pure; a fall-back first-reaction step does not: either form is legal
                pk = m.pureOdeVector(list(X[k - 1]), Tm[k - 1])
                a1 = all_close([X[k][s] - X[k - 1][s] for s in range(S)], [inc[s] + pk[s] * dT[k - 1] for s in range(S)], c)
                a2 = all_close([X[k][s] - X[k - 1][s] for s in range(S)], inc, c)
                c.prove(disj([a1, a2]), "state change == V x counts (+ tau x explicit terms) (step %d)" % k)
            if "limits" in asserts:
                c.prove(within(list(X[k]), lims), "recorded state within limits (step %d)" % k)
            if "conserve" in asserts:
                c.prove(close(zsum(X[k]), zsum(x_in), c), "total population constant (step %d)" % k)
        if not calls["cut"]:
            # why did the loop stop?
            last_x, last_t = list(X[-1]), Tm[-1]
            rates = m.eventRateVector(last_x, last_t)
            stopped_at_horizon = last_t >= T
            none_fire = conj([rr <= 0 for rr in rates])
            if bool(stopped_at_horizon):
                c.note("exit: horizon")
            elif bool(none_fire):
                c.note("exit: no event can fire")
            else:
                # an illegal proposal ended the run: legal only if limits are in play
                c.note("exit: illegal step")
                c.prove(any(l != (None, None) for l in lims), "loop leaves early only at the horizon, when nothing can fire, or on an illegal step")
    return Unit("%s.jump[%s,exact=%s,K=%d,pre_tau=%s,lims=%s%s]" % (tag, spec.name, exact, K, pre_tau, lim_mode, ("" if x0_kind == "sym" else ",x0=" + x0_kind) + ("" if t0_kind == "sym" else ",t0=" + t0_kind)), h,
                bounds={"states": S, "events": E, "unwind_steps": K, "x0": "integers 0..6 (symbolic)" if x0_kind == "sym" else ("concrete int64 array [5,2,3][:S]" if x0_kind == "int64" else "concrete uint8 array [255,0,3][:S]"), "parameters": "symbolic > 0",
                        "horizon": "symbolic", "tau_leap_rate_statistics": "havoc per step" if not exact else "n/a"},
                program=spec.describe(), max_paths=max_paths)


def helper_contract_unit(nR, nS, shrink_iters=2):
    """_tau_leap.pyx de-typed into Python and executed symbolically: returns (tau', True) with 0 < tau' <= tau"""
    import re

    def load():
        src = open(os.path.join(os.environ.get("PGV_REPO", "/repo"), "src/pygom/model/_tau_leap.pyx")).read().replace("\r\n", "\n")
        body = src[src.index("def _cy_test_tau_leap_safety"):]
        body = re.sub(r"def _cy_test_tau_leap_safety\((.|\n)*?\):\n", "def helper(x, reactant_mat, rates, tau_scale, epsilon):\n", body, count=1)
        out = []
        for line in body.split("\n"):
            s = line.strip()
            m_ = re.match(r"^(\s*)cdef\s+[\w\.\[\]:, ]+?\s(\w+)\s*=\s*(.*)$", line)
            if s.startswith("cdef") and m_:
                out.append("%s%s = %s" % (m_.group(1), m_.group(2), m_.group(3)))
            elif s.startswith("cdef"):
                continue
            else:
                out.append(line)
        return "\n".join(out)

    def h(c):
        code = load()
        pd = c.uf("pdtr", 2)
        count = {"n": 0}

        def pdtr(k, mu):
            count["n"] += 1
            if count["n"] > shrink_iters * nR * nS:
                raise sym.Abort("shrink loop unwound %d times" % shrink_iters, kind="unwind")
            v = pd(k, mu)
            c.assume(v >= 0)
            c.assume(v <= 1)
            return v

        class csc:
            pass
        csc.pdtr = staticmethod(pdtr)
        ns = {"np": np, "csc": csc, "floor": (lambda v: v), "print": (lambda *a: None)}
        exec(compile(code, "_tau_leap_detyped", "exec"), ns)
        x = arr(c, [c.intreal("x%d" % i, lo=0) for i in range(nS)])
        rates = arr(c, [c.real("r%d" % j, lo=0) for j in range(nR)])
        react = np.ones((nS, nR), dtype=np.int64)
        tau = c.real("tau", lo=0, lo_strict=True)
        eps = c.real("eps", lo=0, hi=1, lo_strict=True, hi_strict=True)

        # unwinding guard on the shrink loop
        class Guard(object):
            def __init__(s):
                s.n = 0
        out = ns["helper"](x, react, rates, tau, eps) if c.mode == "sym" else None
        if out is False:
            c.prove(False, "bare False only after 257 shrink iterations")
            return
        tau2, safe = out
        c.prove(safe is True, "helper reports safe")
        c.prove(tau2 > 0, "returned tau is positive")
        c.prove(tau2 <= tau, "returned tau does not exceed the proposed tau")
    return Unit("C04.helper[_tau_leap.pyx de-typed,rates=%d,states=%d,shrink<=%d]" % (nR, nS, shrink_iters), h,
                bounds={"rates": nR, "states": nS, "pdtr": "uninterpreted function with values in [0,1]",
                        "shrink_iterations": "paths needing more than the decision-depth bound are cut"},
                max_paths=6000, allow_aborts=True, time_budget_s=1500)


def shape_specs():
    """(S,E) in {1,2,3}^2 event models, names avoid the C macro I"""
    E_, Tr, Ev, M = expr.E, expr.Tr, expr.Ev, expr.ModelSpec
    v = expr.Var
    out = []
    for S in (1, 2, 3):
        for En in (1, 2, 3):
            st = ["X", "Y", "Z"][:S]
            evs = []
            for j in range(En):
                o = st[j % S]
                if S > 1 and j % 2 == 0:
                    evs.append(Ev(v("a") * v(o), [Tr("T", o, st[(j + 1) % S])]))
                elif j % 2 == 1:
                    evs.append(Ev(v("b"), [Tr("B", destination=o)]))
                else:
                    evs.append(Ev(v("a") * v(o), [Tr("D", origin=o)]))
            out.append(M("shape_%dx%d" % (S, En), st, ["a", "b"], evs))
    return out


def chained_bundle_spec():
    """one event bundling two transitions that meet in a state (E->J declared before S->E: E's net change is 0), plus a
    single-transition event: the column of the bundled event needs accumulation over the transitions, in either order"""
    Tr, Ev, M, v = expr.Tr, expr.Ev, expr.ModelSpec, expr.Var
    return M("chained_bundle", ["S", "E", "J"], ["a", "b"],
             [Ev(v("a") * v("S") * v("E"), [Tr("T", "E", "J"), Tr("T", "S", "E")]), Ev(v("b") * v("J"), [Tr("T", "J", "S")])])


class C04(Check):
    id = "C04"
    level = "model_checking"
    explanation = ("One symbolic step of the real firstReaction and tauLeap from an ARBITRARY valid state (symbolic integer state, symbolic "
                   "integer state-change matrix, symbolic rates, symbolic exponential draws / Poisson counts / epsilon / fixed or adaptive tau) "
                   "-- an inductive step covering walks of any length -- plus the real SimulateOde._jump loop unwound K steps on real models "
                   "of every shape (states, events) in {1,2,3}^2 with their compiled state-change matrix and rates.  z3 decides on every path "
                   "that the state change is V x counts (+ tau x explicit terms), counts are non-negative integers (one-hot in exact mode), "
                   "times strictly increase, rejected steps leave state and time untouched, and the loop only leaves at the horizon, when "
                   "no rate is positive, or on an illegal step.  The Cython helper is checked separately on its de-typed source.")
    stubs = ["numpy global RNG (exponential: scale*E, E>0; poisson: integer >= 0)", "_cy_test_tau_leap_safety -> (tau', True), 0 < tau' <= tau",
             "tau-leap mode: transitionMean/transitionVar havoc'd (free symbols, var >= 0)"]
    assumptions = ["rates are non-negative at the states visited", "floats as reals (t + dt == t for tiny dt outside the claim)",
                   "walks longer than the unwind depth are covered only through the one-step (inductive) harnesses",
                   "termination in bounded wall-time is not decided"]

    def units(self, tier, seed):
        us = []
        if tier == "quick":
            us.append(first_reaction_unit(2, 2))
            us.append(first_reaction_unit(3, 2))
            us.append(tau_leap_unit(2, 2, False))
            us.append(tau_leap_unit(2, 2, True))
            specs = [s for s in shape_specs() if s.name in ("shape_1x1", "shape_1x2", "shape_2x1", "shape_2x2", "shape_3x3")]
            K = 2
        else:
            us += [first_reaction_unit(3, 3), first_reaction_unit(2, 4), first_reaction_unit(4, 2)]
            # (adaptive tau with 3 events forks 4^3 ways inside _get_adaptive_tau_step: 10k paths, one hour -- measured;
            #  the adaptive routine is covered with 2 events, 3 events run with a fixed symbolic tau)
            us += [tau_leap_unit(3, 2, False), tau_leap_unit(3, 2, True), tau_leap_unit(2, 3, True)]
            specs = shape_specs()
            K = 3
        for s in specs:
            us.append(jump_unit(s, True, K))
            us.append(jump_unit(s, False, min(K, 2)))
        us.append(jump_unit(expr.by_name("sir"), True, K))
        us.append(jump_unit(expr.by_name("sir_bd_multi"), True, 2))
        us.append(jump_unit(chained_bundle_spec(), True, 2))
        us.append(jump_unit(chained_bundle_spec(), False, 2))
        # typed initial state (int64 array): exact, adaptive tau-leap, and tau-leap on a model with explicit ODE terms
        sp22 = [s for s in shape_specs() if s.name == "shape_2x2"][0]
        us.append(jump_unit(sp22, True, 2, x0_kind="int64"))
        us.append(jump_unit(sp22, False, 2, x0_kind="int64"))
        us.append(jump_unit(sp22, True, 2, x0_kind="uint8"))
        us.append(jump_unit(sp22, False, 2, x0_kind="uint8"))
        # the initial time written as a plain Python number
        us.append(jump_unit(sp22, True, 2, t0_kind="pyint"))
        us.append(jump_unit(sp22, False, 2, x0_kind="int64", t0_kind="pyfloat"))
        us.append(jump_unit(expr.by_name("ode_mixed"), False, 2, pre_tau=True, x0_kind="int64"))
        us.append(helper_contract_unit(1, 1))
        us.append(helper_contract_unit(2, 1))
        if tier != "quick":
            us.append(helper_contract_unit(1, 2))
            us.append(helper_contract_unit(1, 1, 4))
            us.append(helper_contract_unit(2, 2))
            us.append(helper_contract_unit(3, 2, 1))
        return us


CHECK = C04()
