"""C15 -- gridded stochastic output agrees with the underlying path."""
import numpy as np
import z3

from .. import sym, expr, stubs
from ..core import Check, Unit
from ..sym import Sym, SymBool, all_close, close
from .stoch import zsum, conj, arr, mat
from .c01 import built
from .c04 import shape_specs


def ite(c, cond, a, b):
    if isinstance(cond, SymBool):
        return Sym(z3.If(cond.z, sym._real(sym.to_z3(a)), sym._real(sym.to_z3(b))))
    return a if cond else b


def band(a, b):
    if isinstance(a, SymBool) or isinstance(b, SymBool):
        az = a.z if isinstance(a, SymBool) else z3.BoolVal(bool(a))
        bz = b.z if isinstance(b, SymBool) else z3.BoolVal(bool(b))
        return SymBool(z3.And(az, bz))
    return bool(a) and bool(b)


def grid_unit(S, E, m, n, form, late=False):
    """solve_stochast post-processing on an arbitrary LEGAL exact path with m events, grid of n+1 points.
    late: the first requested time lies AFTER the initial time (events may fire before the grid starts)"""
    spec = [s for s in shape_specs() if s.name == "shape_%dx%d" % (min(S, 3), min(E, 3))][0]

    def h(c):
        model = built(spec)
        typed = form.startswith("int_")
        t0 = 0.0 if typed else c.real("t0")
        x0 = arr(c, [c.intreal("x%d" % i, lo=0, hi=50) for i in range(S)])
        V = mat(c, [[c.intreal("v%d_%d" % (i, j), lo=-3, hi=3) for j in range(E)] for i in range(S)])
        # an arbitrary legal path
        ts, idx = [], []
        prev = t0
        for i in range(m):
            ti = c.real("e%d" % i)
            c.assume(ti > prev)
            prev = ti
            ts.append(ti)
            idx.append(c.choice("ev%d" % i, E))
        X = [list(x0)]
        for i in range(m):
            X.append([X[-1][s] + V[s, idx[i]] for s in range(S)])
        J = [[1 if j == idx[i] else 0 for j in range(E)] for i in range(m)]
        # grid g0 = t0 < g1 < ... < gn, event times never exactly on a grid time
        if typed:
            # typed grid: integer-typed requested times 0,1,..,n (list or int64 array) with initial time 0.0
            g = [int(k) for k in range(n + 1)]
        else:
            g = [t0]
            if late:
                g0 = c.real("g0")
                c.assume(g0 > t0)
                g = [g0]
            for k in range(1, n + 1):
                gk = c.real("g%d" % k)
                c.assume(gk > g[-1])
                g.append(gk)
        for ti in ts:
            for gk in (g if late else g[1:]):
                c.assume(ti != gk if c.mode == "sym" else abs(ti - gk) > 1e-9)
        Xa = mat(c, X)
        Ta = arr(c, [t0] + ts)
        Ja = np.array(J)
        dTa = arr(c, [Ta[i + 1] - Ta[i] for i in range(m)])
        seen = {}

        def fake_jump(finalT, exact=False, full_output=True, seed=None):
            seen["finalT"] = finalT
            seen["exact"] = exact
            return Xa.copy(), Ja.copy(), Ta.copy(), dTa.copy()
        if form in ("list", "int_list"):
            grid = list(g)
        elif form == "tuple":
            grid = tuple(g)
        elif form == "int_array":
            grid = np.array(g, dtype=np.int64)
        else:
            grid = np.array(g, dtype=object if c.mode == "sym" else float)
        model.initial_values = (x0, np.float64(t0)) if typed else (x0, t0)
        if c.mode == "sym":
            model._x0 = x0
        with stubs.patched((model, "_jump", fake_jump)):
            simX, simJ, tout = model.solve_stochast(grid, 1, exact=True, full_output=True)
        c.reachable("solve_stochast returned")
        c.prove(close(np.asarray(seen["finalT"], dtype=object).ravel()[0], g[-1], c) and seen["exact"] is True, "simulation horizon is the last requested time")
        c.prove(len(simX) == 1 and len(simJ) == 1, "one result per iteration")
        rows, cnt = simX[0], simJ[0]
        c.prove(len(rows) == n + 1, "one state row per requested time")
        c.prove(np.asarray(cnt, dtype=object).shape == (n, E), "one counts row per interval, one column per event")
        c.prove(len(tout) == n + 1, "requested times are returned")
        if not late:
            c.prove(all_close(rows[0], list(x0), c), "first row is the initial state")
        exp_rows = []
        for k in range(n + 1):
            exp_rows.append([x0[s] + zsum(ite(c, ts[i] <= g[k], V[s, idx[i]], 0) for i in range(m)) for s in range(S)])
            c.prove(all_close(rows[k], exp_rows[k], c), "row %d is the state of the path at t_%d (last event not after it)" % (k, k))
        if np.asarray(cnt, dtype=object).shape != (n, E):
            return
        for k in range(n):
            exp_c = [zsum(ite(c, band(ts[i] > g[k], ts[i] < g[k + 1]), 1, 0) for i in range(m) if idx[i] == j) for j in range(E)]
            c.prove(all_close(list(cnt[k]), exp_c, c), "interval %d counts are per-event counts of events inside the interval" % k)
            inc = [zsum(V[s, j] * cnt[k][j] for j in range(E)) for s in range(S)]
            c.prove(all_close([rows[k + 1][s] - rows[k][s] for s in range(S)], inc, c), "rows %d->%d differ by V x interval counts" % (k, k + 1))
    return Unit("C15.grid[S=%d,E=%d,events=%d,grid=%d,form=%s%s]" % (S, E, m, n, form, ",first requested time after t0" if late else ""), h,
                bounds={"states": S, "events_kinds": E, "path_events": m, "grid_points": n + 1, "grid_form": form,
                        "path": "arbitrary legal exact path (symbolic times, symbolic integer V, every event-kind sequence)"},
                max_paths=40000)


class C15(Check):
    id = "C15"
    level = "model_checking"
    explanation = ("The real solve_stochast time normalisation and post-processing (_extractObservationAtTime, _addJumpsBetweenTime) run on an "
                   "ARBITRARY legal exact path (C04's postcondition): symbolic event times, every sequence of event kinds, symbolic integer "
                   "state-change matrix and initial state, and a symbolic grid g0=t0<g1<..<gn (or t0<g0: events before the grid starts) that may end before or after the last event "
                   "(grid past extinction).  z3 decides for every relative order of event and grid times that row k is the state after the "
                   "last event not later than g_k, interval counts are per-event counts of events strictly inside the interval, and "
                   "consecutive rows differ by V x counts.  Includes paths with NO event (run started in an absorbing state) and typed integer grids.")
    stubs = ["SimulateOde._jump replaced by a generator of arbitrary legal paths (the property is about the post-processing)"]
    assumptions = ["no event time coincides exactly with a requested time (measure zero)", "first requested time is the initial time or later",
                   "tau-leap interpolation of states between leaps is not claimed by the property", "floats as reals"]

    def units(self, tier, seed):
        us = []
        if tier == "quick":
            us.append(grid_unit(2, 2, 2, 2, "list"))
            us.append(grid_unit(2, 2, 3, 2, "array"))
            us.append(grid_unit(1, 1, 2, 3, "tuple"))
            us.append(grid_unit(2, 2, 0, 2, "list"))      # no event fires at all (started in an absorbing state)
            us.append(grid_unit(2, 1, 1, 2, "array"))
            us.append(grid_unit(2, 2, 2, 2, "int_array"))
            us.append(grid_unit(1, 1, 2, 2, "int_list"))
            us.append(grid_unit(2, 2, 2, 2, "array", late=True))
        else:
            for form in ("list", "tuple", "array"):
                us.append(grid_unit(2, 2, 3, 3, form))
            us.append(grid_unit(2, 2, 4, 2, "array"))
            us.append(grid_unit(3, 3, 3, 2, "array"))
            us.append(grid_unit(1, 1, 3, 3, "list"))
            us.append(grid_unit(2, 1, 3, 3, "list"))
            us.append(grid_unit(2, 2, 3, 3, "int_array"))
            us.append(grid_unit(2, 2, 3, 2, "int_list"))
            us.append(grid_unit(2, 2, 2, 2, "array", late=True))
            us.append(grid_unit(2, 2, 3, 2, "array", late=True))
            us.append(grid_unit(1, 1, 2, 3, "list", late=True))
            for S, E in ((1, 1), (2, 2), (3, 2)):
                us.append(grid_unit(S, E, 0, 2, "list"))
                us.append(grid_unit(S, E, 0, 3, "array"))
                us.append(grid_unit(S, E, 1, 2, "tuple"))
        return us


CHECK = C15()
