"""C11 -- declared state limits are never violated in stochastic simulation."""
import contextlib
import io
import numpy as np

from .. import sym, expr
from ..core import Check, Unit
from ..sym import all_close, close, SymBool
from .stoch import conj, arr
from .c04 import first_reaction_unit, tau_leap_unit, jump_unit, sym_limits, within, shape_specs


def check_jump_unit(n):
    from pygom.model import stochastic_simulation as ss

    def h(c):
        x = arr(c, [c.real("x%d" % i) for i in range(n)])
        xn = arr(c, [c.real("xn%d" % i) for i in range(n)])
        t = c.real("t")
        dt = c.real("dt", lo=0, lo_strict=True)
        lims = sym_limits(c, n, "sym")
        jumps = [1] + [0] * (n - 1)
        t_new, jt, xr, jr, ok = ss._checkJump(x, xn, lims, t, dt, jumps)
        w = within(xn, lims)
        if ok:
            c.prove(w, "accepted => every component within its limits")
            c.prove(xr is xn, "accepted => proposed state returned")
            c.prove(close(t_new, t + dt, c), "accepted => time advanced by dt")
        else:
            c.prove(~w if isinstance(w, SymBool) else (not w), "rejected => some component outside its limits")
            c.prove(xr is x, "rejected => the unchanged state object is returned")
            c.prove(close(t_new, t, c), "rejected => time unchanged")
        c.prove(jr is jumps and close(jt, dt, c), "counts and step passed through")
    return Unit("C11._checkJump[n=%d]" % n, h, bounds={"states": n, "limit_kinds": "none/lower/upper/both per state (symbolic values, lo<=hi)"},
                max_paths=20000)


def plumbing_unit():
    """declaration forms -> _state_lims[i] are the limits declared for state i (default (0, None))"""
    from pygom import SimulateOde, Transition, Event

    def h(c):
        lo = c.real("lo")
        hi = c.real("hi")
        c.assume(lo <= hi)
        ev = [Event(rate="a*X", transition_list=[Transition(origin="X", destination="Y", transition_type="T")])]
        m1 = SimulateOde(state=[("X", (lo, hi)), "Y", ("Z", (None, hi))], param=["a"], event=ev)
        c.prove(len(m1._state_lims) == 3, "one limit pair per state (list form)")
        c.prove(m1._state_lims[0][0] is lo and m1._state_lims[0][1] is hi, "tuple form keeps declared limits for X")
        c.prove(m1._state_lims[1] == (0, None), "plain string state gets the default (0, None)")
        c.prove(m1._state_lims[2][0] is None and m1._state_lims[2][1] is hi, "one-sided limit kept for Z")
        c.prove([str(s) for s in m1.state_list] == ["X", "Y", "Z"], "state order unchanged by limit declarations")
        m2 = SimulateOde(state="X, Y Z", param=["a"], event=ev)
        c.prove(m2._state_lims == [(0, None)] * 3, "string declaration: default limits for every state")
        m3 = SimulateOde(state=["X", "Y"], param=["a"], event=ev)
        c.prove(m3._state_lims == [(0, None)] * 2, "list of names: default limits")
    return Unit("C11.plumbing[_add_list_attr_with_limits]", h, bounds={"forms": ["list with (name,(lo,hi))", "comma/space string", "list of names"]})


class C11(Check):
    id = "C11"
    level = "model_checking"
    explanation = ("The accept/reject contract of _checkJump is decided for ALL states, proposals and limit values (every combination of absent / "
                   "lower / upper / two-sided limit per state); one symbolic step of firstReaction and tauLeap from an arbitrary state inside "
                   "symbolic limits with symbolic integer magnitudes up to 3, symbolic counts and tau (inductive step: inside-limits is "
                   "preserved, a rejected step changes nothing); the real _jump loop unwound K steps with symbolic limits incl. the tau-leap -> "
                   "first-reaction fall-back; and the plumbing from the three declaration forms to _state_lims.")
    stubs = ["numpy global RNG streams", "_cy_test_tau_leap_safety contract", "transitionMean/Var havoc in tau-leap mode"]
    assumptions = ["initial state within limits", "gridded tau-leap output is np.interp of recorded states (convex combinations stay within limits; np.interp itself not executed)",
                   "floats as reals", "walks longer than K steps only through the inductive one-step harness"]

    def units(self, tier, seed):
        us = [check_jump_unit(2), plumbing_unit()]
        if tier != "quick":
            us.append(check_jump_unit(3))
        us.append(first_reaction_unit(2, 2, lim_mode="sym", asserts=("walk", "limits"), tag="C11"))
        us.append(tau_leap_unit(2, 1, True, lim_mode="sym", asserts=("walk", "limits"), tag="C11"))
        us.append(tau_leap_unit(1, 2, False, lim_mode="sym", asserts=("walk", "limits"), tag="C11"))
        specs = {s.name: s for s in shape_specs()}
        us.append(jump_unit(specs["shape_1x2"], True, 2, lim_mode="sym", asserts=("walk", "limits"), tag="C11"))
        us.append(jump_unit(specs["shape_1x2"], False, 2, lim_mode="sym", asserts=("walk", "limits"), tag="C11"))
        us.append(jump_unit(specs["shape_2x2"], True, 2, lim_mode="sym", asserts=("walk", "limits"), tag="C11"))
        if tier != "quick":
            us.append(first_reaction_unit(3, 2, lim_mode="sym", asserts=("walk", "limits"), tag="C11"))
            us.append(tau_leap_unit(2, 2, True, lim_mode="sym", asserts=("walk", "limits"), tag="C11"))
            us.append(jump_unit(specs["shape_2x2"], False, 2, lim_mode="sym", asserts=("walk", "limits"), tag="C11", max_paths=20000))
            us.append(jump_unit(specs["shape_2x1"], False, 3, pre_tau=True, lim_mode="sym", asserts=("walk", "limits"), tag="C11", max_paths=20000))
        return us


CHECK = C11()
