"""C11 -- declared state limits are never violated in stochastic simulation."""
import contextlib
import io
import numpy as np

from .. import sym, expr
from ..core import Check, Unit
from ..sym import all_close, close, SymBool
from .stoch import conj, arr
from .c04 import first_reaction_unit, tau_leap_unit, jump_unit, sym_limits, within, shape_specs


def check_jump_unit(n):
    from pygom.model import stochastic_simulation as ss

    def h(c):
        x = arr(c, [c.real("x%d" % i) for i in range(n)])
        xn = arr(c, [c.real("xn%d" % i) for i in range(n)])
        t = c.real("t")
        dt = c.real("dt", lo=0, lo_strict=True)
        lims = sym_limits(c, n, "sym")
        jumps = [1] + [0] * (n - 1)
        t_new, jt, xr, jr, ok = ss._checkJump(x, xn, lims, t, dt, jumps)
        w = within(xn, lims)
        if ok:
            c.prove(w, "accepted => every component within its limits")
            c.prove(xr is xn, "accepted => proposed state returned")
            c.prove(close(t_new, t + dt, c), "accepted => time advanced by dt")
        else:
            c.prove(~w if isinstance(w, SymBool) else (not w), "rejected => some component outside its limits")
            c.prove(xr is x, "rejected => the unchanged state object is returned")
            c.prove(close(t_new, t, c), "rejected => time unchanged")
        c.prove(jr is jumps and close(jt, dt, c), "counts and step passed through")
    return Unit("C11._checkJump[n=%d]" % n, h, bounds={"states": n, "limit_kinds": "none/lower/upper/both per state (symbolic values, lo<=hi)"},
                max_paths=20000)


def plumbing_unit():
    """declaration forms -> _state_lims[i] are the limits declared for state i (default (0, None))"""
    from pygom import SimulateOde, Transition, Event

    def h(c):
        lo = c.real("lo")
        hi = c.real("hi")
        c.assume(lo <= hi)
        ev = [Event(rate="a*X", transition_list=[Transition(origin="X", destination="Y", transition_type="T")])]
        m1 = SimulateOde(state=[("X", (lo, hi)), "Y", ("Z", (None, hi))], param=["a"], event=ev)
        c.prove(len(m1._state_lims) == 3, "one limit pair per state (list form)")
        c.prove(m1._state_lims[0][0] is lo and m1._state_lims[0][1] is hi, "tuple form keeps declared limits for X")
        c.prove(m1._state_lims[1] == (0, None), "plain string state gets the default (0, None)")
        c.prove(m1._state_lims[2][0] is None and m1._state_lims[2][1] is hi, "one-sided limit kept for Z")
        c.prove([str(s) for s in m1.state_list] == ["X", "Y", "Z"], "state order unchanged by limit declarations")
        m2 = SimulateOde(state="X, Y Z", param=["a"], event=ev)
        c.prove(m2._state_lims == [(0, None)] * 3, "string declaration: default limits for every state")
        m3 = SimulateOde(state=["X", "Y"], param=["a"], event=ev)
        c.prove(m3._state_lims == [(0, None)] * 2, "list of names: default limits")
    return Unit("C11.plumbing[_add_list_attr_with_limits]", h, bounds={"forms": ["list with (name,(lo,hi))", "comma/space string", "list of names"]})


def interp_model(c):
    """numpy.interp(xq, xp, fp) for increasing xp: clamp at the ends, linear in between (forks on the position)"""
    def interp(xq, xp, fp, **kw):
        xp = [v for v in np.asarray(xp, dtype=object).ravel()]
        fp = [v for v in np.asarray(fp, dtype=object).ravel()]
        out = []
        for q in np.asarray(xq, dtype=object).ravel():
            if bool(q <= xp[0]):
                out.append(fp[0])
                continue
            if bool(q >= xp[-1]):
                out.append(fp[-1])
                continue
            for k in range(len(xp) - 1):
                if k == len(xp) - 2 or bool(q < xp[k + 1]):
                    w = (q - xp[k]) / (xp[k + 1] - xp[k])
                    out.append(fp[k] + w * (fp[k + 1] - fp[k]))
                    break
        return np.array(out, dtype=object)
    return interp


def gridded_tau_unit(S, m_steps, n_grid):
    """gridded tau-leap output: the real solve_stochast(exact=False) post-processing on an arbitrary recorded
    path whose states are within symbolic limits; every returned row must be within the limits too (it is the
    interpolation of the recorded states of ITS OWN component at the requested time)"""
    from pygom.model import simulate as simmod
    from .c01 import built
    from .. import stubs
    spec = [s_ for s_ in shape_specs() if s_.name == "shape_%dx2" % S][0]

    def h(c):
        if c.mode != "sym":
            return
        model = built(spec)
        lims = sym_limits(c, S, "sym")
        t0 = c.real("t0")
        ts = [t0]
        for i in range(m_steps):
            ti = c.real("e%d" % i)
            c.assume(ti > ts[-1])
            ts.append(ti)
        X = [[(c.intreal("p%d_%d" % (i, s_)) if i == 0 else c.real("p%d_%d" % (i, s_))) for s_ in range(S)] for i in range(m_steps + 1)]
        for row in X:
            c.assume(within(row, lims))
        g = [t0]
        for k in range(1, n_grid + 1):
            gk = c.real("g%d" % k)
            c.assume(gk > g[-1])
            g.append(gk)
        Xa = np.array(X, dtype=object)
        Ja = np.array([[c.intreal("n%d_%d" % (i, j), lo=0, hi=5) for j in range(2)] for i in range(m_steps)], dtype=object)
        Ta = arr(c, ts)

        def fake_jump(finalT, exact=False, full_output=True, seed=None):
            return Xa.copy(), Ja.copy(), Ta.copy(), arr(c, [Ta[i + 1] - Ta[i] for i in range(m_steps)])
        npx = stubs.NumpyObjProxy()
        npx.interp = interp_model(c)
        model.initial_values = (arr(c, X[0]), t0)
        model._x0 = arr(c, X[0])
        with stubs.patched((model, "_jump", fake_jump), (simmod, "np", npx)):
            simX, simJ, tout = model.solve_stochast(np.array(g, dtype=object), 1, exact=False, full_output=True)
        rows = simX[0]
        c.reachable("gridded tau-leap output produced")
        c.prove(len(rows) == n_grid + 1, "one row per requested time")
        c.prove(all_close(list(rows[0]), X[0], c), "first row is the initial state")
        for k in range(n_grid + 1):
            c.prove(within(list(rows[k]), lims), "gridded tau-leap row %d is within the declared limits" % k)
            for s_ in range(S):
                lo = X[0][s_]
                col = [X[i][s_] for i in range(m_steps + 1)]
                c.prove(conj([rows[k][s_] <= _max(col), rows[k][s_] >= _min(col)]), "row %d, state %d lies between the recorded values of that state" % (k, s_))
    return Unit("C11.gridded_tau[S=%d,steps=%d,grid=%d]" % (S, m_steps, n_grid), h,
                bounds={"states": S, "recorded_steps": m_steps, "grid_points": n_grid + 1, "np.interp": "piecewise-linear model with clamping"},
                max_paths=20000, fidelity=0)


def _max(vals):
    import z3
    from ..sym import Sym, to_z3, _real
    acc = _real(to_z3(vals[0]))
    for v in vals[1:]:
        vz = _real(to_z3(v))
        acc = z3.If(vz > acc, vz, acc)
    return Sym(acc)


def _min(vals):
    import z3
    from ..sym import Sym, to_z3, _real
    acc = _real(to_z3(vals[0]))
    for v in vals[1:]:
        vz = _real(to_z3(v))
        acc = z3.If(vz < acc, vz, acc)
    return Sym(acc)


class C11(Check):
    id = "C11"
    level = "model_checking"
    explanation = ("The accept/reject contract of _checkJump is decided for ALL states, proposals and limit values (every combination of absent / "
                   "lower / upper / two-sided limit per state); one symbolic step of firstReaction and tauLeap from an arbitrary state inside "
                   "symbolic limits with symbolic integer magnitudes up to 3, symbolic counts and tau (inductive step: inside-limits is "
                   "preserved, a rejected step changes nothing); the real _jump loop unwound K steps with symbolic limits incl. the tau-leap -> "
                   "first-reaction fall-back; the gridded tau-leap output (interpolation of the recorded states, component by component); and the plumbing "
                   "from the three declaration forms to _state_lims.")
    stubs = ["numpy global RNG streams", "_cy_test_tau_leap_safety contract", "transitionMean/Var havoc in tau-leap mode"]
    assumptions = ["initial state within limits", "gridded tau-leap output: the real post-processing runs on an arbitrary recorded path within the limits, with np.interp replaced by a piecewise-linear model (clamped at the ends)",
                   "floats as reals", "walks longer than K steps only through the inductive one-step harness"]

    def units(self, tier, seed):
        us = [check_jump_unit(2), plumbing_unit(), gridded_tau_unit(2, 1, 2)]
        if tier != "quick":
            us.append(check_jump_unit(3))
            us.append(gridded_tau_unit(1, 3, 2))
            us.append(gridded_tau_unit(2, 2, 2))
        us.append(first_reaction_unit(2, 2, lim_mode="sym", asserts=("walk", "limits"), tag="C11"))
        us.append(tau_leap_unit(2, 1, True, lim_mode="sym", asserts=("walk", "limits"), tag="C11"))
        us.append(tau_leap_unit(1, 2, False, lim_mode="sym", asserts=("walk", "limits"), tag="C11"))
        specs = {s.name: s for s in shape_specs()}
        us.append(jump_unit(specs["shape_1x2"], True, 2, lim_mode="sym", asserts=("walk", "limits"), tag="C11"))
        us.append(jump_unit(specs["shape_1x2"], False, 2, lim_mode="sym", asserts=("walk", "limits"), tag="C11"))
        us.append(jump_unit(specs["shape_2x2"], True, 2, lim_mode="sym", asserts=("walk", "limits"), tag="C11"))
        if tier != "quick":
            us.append(first_reaction_unit(3, 2, lim_mode="sym", asserts=("walk", "limits"), tag="C11"))
            us.append(tau_leap_unit(2, 2, True, lim_mode="sym", asserts=("walk", "limits"), tag="C11"))
            us.append(jump_unit(specs["shape_2x2"], False, 2, lim_mode="sym", asserts=("walk", "limits"), tag="C11", max_paths=20000))
            us.append(jump_unit(specs["shape_2x1"], False, 3, pre_tau=True, lim_mode="sym", asserts=("walk", "limits"), tag="C11", max_paths=20000))
        return us


CHECK = C11()
