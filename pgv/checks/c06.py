"""C06 -- cost is the stated loss of the model trajectory against the data.
Also hosts the loss-object builder shared with C07, C18 and C20."""
import numpy as np

from .. import sym, stubs, expr, models
from ..core import Check, Unit
from ..sym import Sym, all_close, close, near, all_near
from .stoch import zsum, arr, mat
from .c14 import ref_nll, stats_patches, KINDS

STATES = ["S", "J", "R"]
PARAMS = ["beta", "gamma"]


def sir3_rhs(x, th):
    S, J, R = x
    b, g = th
    return [-b * S * J, b * S * J - g * J, g * J]


def ref_solution(th, x0, t0, ts):
    """independent reference (replay only): tight-tolerance DOP853 on the hand-written right-hand side"""
    from scipy.integrate import solve_ivp
    f = lambda t, y: sir3_rhs(y, th)
    s = solve_ivp(f, (t0, ts[-1]), [float(v) for v in x0], method="DOP853", t_eval=[float(t) for t in ts], rtol=1e-12, atol=1e-13)
    return [s.y[:, j] for j in range(len(ts))]


LOSS_CLASSES = {"Square": "SquareLoss", "Normal": "NormalLoss", "Poisson": "PoissonLoss", "Gamma": "GammaLoss", "NegBinom": "NegBinomLoss"}


class LossCase(object):
    """everything symbolic about one loss object"""
    pass


def build_loss(c, kind, sel, tp, ts_sel, n, weighted, spread_form, time_kind="sym", y_kind="sym", x0_kind="sym"):
    """construct the real loss object on the 3-state model; returns LossCase (call inside the stub context in sym mode)"""
    from pygom.loss import ode_loss
    m = models.cached("sir3")
    L = LossCase()
    L.kind, L.sel, L.tp, L.ts_sel, L.n = kind, sel, tp, ts_sel, n
    p = len(sel)
    L.theta_full = [c.real("beta", lo=0.05, hi=0.3), c.real("gamma", lo=0.2, hi=1.0)]
    if x0_kind == "sym":
        L.x0 = arr(c, [c.real("x0_%s" % s, lo=1, hi=10) for s in STATES])
    elif x0_kind == "float64":
        # a TYPED initial state: the caller's own float64 array (what np.asarray(.., float) hands back uncopied)
        L.x0 = np.array([6.0, 2.0, 1.5], dtype=np.float64)
    elif x0_kind == "int_list":
        L.x0 = [6, 2, 1]            # whole-number initial values written as Python ints (the commonest way to write them)
    else:
        L.x0 = np.array([6, 2, 1], dtype=np.int64)
    if time_kind == "sym":
        L.t0 = c.real("t0")
        prev = L.t0
        L.t = []
        for i in range(n):
            ti = c.real("t%d" % (i + 1))
            c.assume(ti > prev)
            if c.mode == "concrete":
                c.assume(ti - prev < 5)
            prev = ti
            L.t.append(ti)
    else:
        # concrete, TYPED time inputs (the dtype of what the user passes is not a real number: it is enumerated):
        # integer-typed observation times with a fractional initial time
        L.t0 = 0.5
        L.t = [int(i + 1) for i in range(n)]
    count = kind in ("Poisson", "NegBinom")
    if y_kind == "sym":
        L.y = [[(c.intreal("y%d_%d" % (i, j), lo=1, hi=30) if count else c.real("y%d_%d" % (i, j), lo=0.5, hi=30)) for j in range(p)] for i in range(n)]
    else:
        # typed observations: a concrete integer-dtype array (case counts as users load them)
        L.y = [[int(3 + 2 * i + 5 * j) for j in range(p)] for i in range(n)]
    # weights: False (none) | True / "full" ((n,p) matrix, or (n,) for one state) | "per_state" ((p,) vector) | "scalar" ([w])
    if weighted == "per_state":
        wv = [c.real("w_%d" % j, lo=0.2, hi=3) for j in range(p)]
        L.w = [list(wv) for _ in range(n)]
    elif weighted == "scalar":
        w0 = c.real("w", lo=0.2, hi=3)
        L.w = [[w0] * p for _ in range(n)]
    else:
        L.w = [[(c.real("w%d_%d" % (i, j), lo=0.2, hi=3) if weighted else 1.0) for j in range(p)] for i in range(n)]
    if kind in ("Normal", "Gamma", "NegBinom"):
        if spread_form == "scalar":
            s0 = c.real("sp", lo=0.3, hi=4)
            L.sp = [[s0] * p for _ in range(n)]
            sp_arg = arr(c, [s0]) if c.mode == "sym" else float(s0)
        elif spread_form == "per_state":
            sv = [c.real("sp_%d" % j, lo=0.3, hi=4) for j in range(p)]
            L.sp = [list(sv) for _ in range(n)]
            sp_arg = arr(c, sv)
        else:
            L.sp = [[c.real("sp%d_%d" % (i, j), lo=0.3, hi=4) for j in range(p)] for i in range(n)]
            sp_arg = mat(c, L.sp) if p > 1 else arr(c, [r[0] for r in L.sp])
    else:
        L.sp = [[None] * p for _ in range(n)]
        sp_arg = None
    if y_kind == "sym":
        y_arg = mat(c, L.y) if p > 1 else arr(c, [r[0] for r in L.y])
    else:
        y_arg = np.array(L.y, dtype=np.int64) if p > 1 else np.array([r[0] for r in L.y], dtype=np.int64)
    if weighted == "per_state":
        w_arg = arr(c, L.w[0])
    elif weighted == "scalar":
        w_arg = arr(c, [L.w[0][0]])
    elif weighted:
        w_arg = mat(c, L.w) if p > 1 else arr(c, [r[0] for r in L.w])
    else:
        w_arg = None
    if time_kind == "sym":
        t_arg = arr(c, L.t)
    elif time_kind == "int_array":
        t_arg = np.arange(1, n + 1)
    elif time_kind == "int_list":
        t_arg = list(L.t)
    else:
        t_arg = np.array(L.t, dtype=float)
    m.parameters = list(L.theta_full)
    m._stochasticParam = None
    m._intName = None
    # free parameters: values supplied by the "optimiser" (may differ from those bound in the model)
    if tp is None:
        L.theta = [c.real("th_beta", lo=0.05, hi=0.3), c.real("th_gamma", lo=0.2, hi=1.0)]
        L.bound = {"beta": L.theta[0], "gamma": L.theta[1]}
    else:
        L.theta = [c.real("th_" + nm, lo=0.05 if nm == "beta" else 0.2, hi=0.3 if nm == "beta" else 1.0) for nm in tp]
        L.bound = {"beta": L.theta_full[0], "gamma": L.theta_full[1]}
        for nm, v in zip(tp, L.theta):
            L.bound[nm] = v
    theta_arg = arr(c, L.theta)
    cls = getattr(ode_loss, LOSS_CLASSES[kind])
    kw = dict(target_param=list(tp) if tp is not None else None, target_state=list(ts_sel) if ts_sel is not None else None)
    sn = list(sel) if len(sel) > 1 else sel[0]
    if kind in ("Square", "Poisson"):
        obj = cls(theta_arg, m, L.x0, L.t0, t_arg, y_arg, sn, w_arg, **kw)
    elif kind == "Normal":
        obj = cls(theta_arg, m, L.x0, L.t0, t_arg, y_arg, sn, w_arg, sp_arg, **kw)
    elif kind == "Gamma":
        obj = cls(theta_arg, m, L.x0, L.t0, t_arg, y_arg, sn, w_arg, sp_arg, **kw)
    else:
        obj = cls(theta_arg, m, L.x0, L.t0, t_arg, y_arg, sn, w_arg, sp_arg, **kw)
    L.obj, L.model, L.theta_arg = obj, m, theta_arg
    # purity: what the caller handed in (theta, x0, observations, times, weights) must not be modified by any call
    from .stoch import snapshot
    L.caller_arrays = [(nm, a, snapshot(a)) for nm, a in (("theta", theta_arg), ("x0", L.x0), ("y", y_arg), ("t", t_arg), ("weights", w_arg))
                       if isinstance(a, np.ndarray)]
    L.idx = [STATES.index(s) for s in sel]
    return L


def check_purity(c, L, label=""):
    from .stoch import unchanged
    for nm, a, snap in getattr(L, "caller_arrays", []):
        c.prove(unchanged(a, snap, c), "the %s array handed in by the caller is not modified%s" % (nm, label))


def ref_cost(c, L, yhat):
    """reference: sum_ij nll(y_ij, yhat_ij) with row i <-> time i and column j <-> state_name[j]"""
    V = expr.Var
    total = 0
    terms = {}
    for i in range(L.n):
        for j in range(len(L.sel)):
            env = {"y": L.y[i][j], "yh": yhat[i][j], "w": L.w[i][j], "sp": L.sp[i][j]}
            e = ref_nll(L.kind, V("y"), V("yh"), V("sp"), V("w"))
            total = total + expr.ev(e, env)
            terms[(i, j)] = (e, env)
    return total, terms


def loss_patches(c):
    if c.mode != "sym":
        return []
    from pygom.loss import base_loss
    ps, st = stats_patches(c)
    return ps + [(base_loss, "np", stubs.NumpyObjProxy())]


def last_flow(book):
    integ = book.integrators[-1]
    return integ, integ._flow


def check_binding(c, L, book, integ, x0_expected, label=""):
    """the integrator was started at the supplied (x0, t0) and evaluates f with the supplied parameter binding"""
    for kind, ig, tp_, yp, val in book.probes:
        if ig is integ and kind == "f":
            c.prove(all_close(yp[:3], x0_expected, c), "integration starts from the supplied initial state" + label)
            c.prove(close(tp_, L.t0, c), "integration starts at the supplied initial time" + label)
            c.prove(all_close(np.asarray(val, dtype=object)[:3], sir3_rhs(yp[:3], [L.bound["beta"], L.bound["gamma"]]), c),
                    "parameters in force during integration are the supplied values mapped through target_param" + label)


def cost_unit(kind, sel, tp, n, weighted=False, spread_form="scalar", entry="cost", ts_sel=None, time_kind="sym", y_kind="sym", x0_kind="sym", aw=True):
    """aw=False: the documented option apply_weighting=False -- the loss of the UNweighted residuals although the object has weights"""
    def h(c):
        akw = {} if aw else {"apply_weighting": False}
        if c.mode == "sym":
            with stubs.integrator_stubs(c, eig="fixed") as book, stubs.patched(*loss_patches(c)):
                L = build_loss(c, kind, sel, tp, ts_sel, n, weighted, spread_form, time_kind, y_kind, x0_kind)
                x0_used = list(L.x0)
                if entry == "cost":
                    out = L.obj.cost(L.theta_arg, **akw)
                elif entry == "residual":
                    out = L.obj.residual(L.theta_arg, **akw)
                else:
                    # costIV: parameters followed by the initial values of the target states
                    tsn = ts_sel if ts_sel is not None else STATES
                    # (a float64 initial-state array cannot hold symbolic values: concrete initial values there)
                    L.x0_free = [c.real("iv_%s" % s, lo=1, hi=10) for s in tsn] if x0_kind == "sym" else [3.25 + 1.5 * k_ for k_ in range(len(tsn))]
                    for s, v in zip(tsn, L.x0_free):
                        x0_used[STATES.index(s)] = v
                    out = L.obj.costIV(arr(c, list(L.theta) + L.x0_free), **akw)
                integ, fl = last_flow(book)
                check_binding(c, L, book, integ, x0_used)
                rows = [book.at(fl, ti) for ti in L.t]
        else:
            L = build_loss(c, kind, sel, tp, ts_sel, n, weighted, spread_form, time_kind, y_kind, x0_kind)
            x0_used = [float(v) for v in L.x0]
            if entry == "cost":
                out = L.obj.cost(L.theta_arg, **akw)
            elif entry == "residual":
                out = L.obj.residual(L.theta_arg, **akw)
            else:
                tsn = ts_sel if ts_sel is not None else STATES
                L.x0_free = [c.real("iv_%s" % s, lo=1, hi=10) for s in tsn] if x0_kind == "sym" else [3.25 + 1.5 * k_ for k_ in range(len(tsn))]
                for s, v in zip(tsn, L.x0_free):
                    x0_used[STATES.index(s)] = v
                out = L.obj.costIV(np.array(list(L.theta) + L.x0_free), **akw)
            rows = ref_solution([L.bound["beta"], L.bound["gamma"]], x0_used, L.t0, L.t)
        yhat = [[rows[i][k] for k in L.idx] for i in range(L.n)]
        c.reachable("loss evaluated")
        check_purity(c, L)
        if not aw:
            L.w = [[1 for _ in row] for row in L.w]        # the reference for apply_weighting=False: unit weights
        if entry == "residual":
            ref = [[(L.y[i][j] - yhat[i][j]) * L.w[i][j] for j in range(len(sel))] for i in range(n)]
            got = np.asarray(out, dtype=object)
            ref_a = np.array(ref, dtype=object)
            if got.shape != ref_a.shape:
                ref_a = ref_a.reshape(got.shape) if got.size == ref_a.size and len(sel) == 1 else ref_a
            c.prove(all_close(got, ref_a, c, tol=1e-5) if got.shape == ref_a.shape else False, "residual[i,j] == (y[i,j] - x_{state j}(t_i)) * w[i,j]")
        else:
            total, _ = ref_cost(c, L, yhat)
            c.prove(near(out, total, c, tol=2e-5), "%s == loss formula on (y[i,j], x_{state_name[j]}(t_i))" % entry)
    return Unit("C06.%s[%s,states=%s,target=%s,n=%d,w=%s,spread=%s,ts=%s%s]" % (entry, kind, "+".join(sel), "all" if tp is None else "+".join(tp), n, weighted, spread_form, ts_sel,
                                                                              ("" if time_kind == "sym" else ",times=" + time_kind) + ("" if y_kind == "sym" else ",y=" + y_kind) + ("" if x0_kind == "sym" else ",x0=" + x0_kind) + ("" if aw else ",apply_weighting=False")), h,
                bounds={"model": "S,J,R / beta,gamma", "times": n, "time_inputs": "symbolic reals" if time_kind == "sym" else "concrete %s 1..n with t0=0.5" % time_kind, "observed_states": list(sel), "target_param": tp, "weights": "symbolic" if weighted else "unit",
                        "spread": spread_form, "x0": "symbolic reals" if x0_kind == "sym" else "typed: %s" % x0_kind}, program={"loss": kind, "sel": list(sel), "tp": tp}, tol=2e-5, max_paths=400)


def zero_unit():
    """with data generated by the model itself the Square cost is identically zero"""
    def h(c):
        if c.mode != "sym":
            return
        with stubs.integrator_stubs(c, eig="fixed") as book:
            L = build_loss(c, "Square", ("J", "S"), None, None, 2, False, "scalar")
            # replace the observations by the trajectory the integrator will return for the same theta
            L.obj.cost(L.theta_arg)
            integ, fl = last_flow(book)
            rows = [book.at(fl, ti) for ti in L.t]
            L.obj._y = np.array([[rows[i][k] for k in L.idx] for i in range(2)], dtype=object)
            L.obj._lossObj._y = L.obj._y
            out = L.obj.cost(L.theta_arg)
            integ2, fl2 = last_flow(book)
            rows2 = [book.at(fl2, ti) for ti in L.t]
            # same ODE, same parameters, same initial condition => same flow (uniqueness); state it for the stub
            for i in range(2):
                c.assume(all_close(rows2[i], rows[i], c))
            c.prove(close(out, 0, c), "square cost at the data-generating parameters is zero")
    return Unit("C06.zero_at_generating_parameters", h, bounds={"times": 2, "observed_states": ["J", "S"]}, program={"loss": "Square", "zero": True})


def sequence_unit(kind="calls"):
    """call HISTORIES on one loss object / one shared model: the parameters in force in every cost evaluation must be
    the ones supplied to THAT call, whatever was evaluated in between (another point through sensitivity, a
    second loss object on the same model, a direct assignment to the model)"""
    def h(c):
        sym_mode = c.mode == "sym"
        ctxs = []
        if sym_mode:
            ctxs = [stubs.integrator_stubs(c, eig="fixed"), stubs.patched(*loss_patches(c))]
        book = ctxs[0].__enter__() if ctxs else None
        if ctxs:
            ctxs[1].__enter__()
        try:
            L = build_loss(c, "Square", ("J", "S"), None, None, 2, False, "scalar")
            A = L.theta_arg
            B = arr(c, [c.real("thB_beta", lo=0.05, hi=0.3), c.real("thB_gamma", lo=0.2, hi=1.0)])

            def expect(out, theta, label):
                bound = {"beta": theta[0], "gamma": theta[1]}
                if sym_mode:
                    integ, fl = last_flow(book)
                    for kind_, ig, tp_, yp, val in book.probes:
                        if ig is integ and kind_ == "f":
                            c.prove(all_close(np.asarray(val, dtype=object)[:3], sir3_rhs(yp[:3], [bound["beta"], bound["gamma"]]), c),
                                    "parameters in force during integration are the ones supplied to this call" + label)
                    rows = [book.at(fl, ti) for ti in L.t]
                else:
                    rows = ref_solution([bound["beta"], bound["gamma"]], [float(v) for v in L.x0], L.t0, L.t)
                yhat = [[rows[i][k] for k in L.idx] for i in range(L.n)]
                total, _ = ref_cost(c, L, yhat)
                c.prove(near(out, total, c, tol=2e-5), "cost == loss formula at the parameters supplied to this call" + label)
            if kind == "calls":
                expect(L.obj.cost(A), A, " [cost(A)]")
                L.obj.sensitivity(B)
                expect(L.obj.cost(A), A, " [cost(A) after sensitivity(B)]")
                expect(L.obj.cost(B), B, " [cost(B)]")
                L.obj.cost(A)
                L.obj.jac(B)
                expect(L.obj.cost(A), A, " [cost(A) after cost(A), jac(B)]")
                # and the other way round: the gradient at A after a cost at B integrates with A
                L.obj.cost(B)
                L.obj.sensitivity(A)
                if sym_mode:
                    integ = book.integrators[-1]
                    for kind_, ig, tp_, yp, val in book.probes:
                        if ig is integ and kind_ == "f":
                            c.prove(all_close(np.asarray(val, dtype=object)[:3], sir3_rhs(yp[:3], [A[0], A[1]]), c),
                                    "sensitivity(A) after cost(B) integrates with the parameters A")
            elif kind == "shared_model":
                from pygom.loss import ode_loss
                y2 = arr(c, [c.real("z%d" % i, lo=0.5, hi=30) for i in range(2)])
                L2obj = ode_loss.SquareLoss(B, L.model, L.x0, L.t0, arr(c, L.t), y2, "R")
                expect(L.obj.cost(A), A, " [loss1.cost(A)]")
                L2obj.cost(B)
                expect(L.obj.cost(A), A, " [loss1.cost(A) after loss2.cost(B) on the same model]")
            else:
                expect(L.obj.cost(A), A, " [cost(A)]")
                L.model.parameters = [B[0], B[1]]
                expect(L.obj.cost(A), A, " [cost(A) after the user re-assigned the model's parameters]")
        finally:
            if ctxs:
                ctxs[1].__exit__(None, None, None)
                ctxs[0].__exit__(None, None, None)
    return Unit("C06.sequence[%s]" % kind, h, bounds={"history": kind, "times": 2, "observed_states": ["J", "S"]},
                program={"loss": "Square", "sequence": kind}, tol=2e-5, max_paths=50)


SELECTIONS = [("S",), ("R",), ("J", "S"), ("S", "R"), ("R", "J"), ("S", "J", "R"), ("R", "S", "J")]
TARGETS = [None, ("beta",), ("gamma",), ("gamma", "beta"), ("beta", "gamma")]


class C06(Check):
    id = "C06"
    level = "other"
    explanation = ("The real BaseLoss constructor, _setParam, _setX0, _setWeight_or_spread, _getSolution, cost, residual, costIV and the five loss "
                   "kernels run on symbolic observations, observation times, x0, theta, weights and spread; the integrator is its contract "
                   "(row i = flow value X(t_i)).  z3 proves cost(theta) == the class's reference formula applied to (y[i,j], X_{state_name[j]}(t_i)) "
                   "for observed-state tuples in every order (incl. non-model order), target_param subsets/orders, scalar/per-state/full spread, "
                   "and that the parameter values, x0 and initial time in force during integration are the supplied ones.  Typed units enumerate "
                   "what a real number cannot express: integer-typed observation times (array/list) with a fractional t0, int64 observations, "
                   "and every accepted weight form (full matrix, per-state vector, single scalar); a typed initial state (the caller's float64 array, Python ints, an int64 array) "
                   "with inferred initial values, and the arrays handed in by the caller come back unchanged; the documented option apply_weighting=False on weighted objects.")
    stubs = ["scipy.integrate.ode contract (measured buffer policy)", "np.linalg.eig fixed (constructor only)", "scipy.stats.poisson.logpmf closed form", "gammaln -> lgamma UF"]
    assumptions = ["integrator accuracy (C02's assumption)", "floats as reals", "valid domain (positive predictions/observations for likelihood losses)"]

    def units(self, tier, seed):
        us = [zero_unit(), sequence_unit("calls"), sequence_unit("shared_model"), sequence_unit("model_reassigned")]
        sels = SELECTIONS if tier != "quick" else [("S",), ("J", "S"), ("R", "J"), ("R", "S", "J")]
        tgts = TARGETS if tier != "quick" else [None, ("gamma", "beta"), ("gamma",)]
        for sel in sels:
            for tp in tgts:
                us.append(cost_unit("Square", sel, tp, 2, weighted=(len(sel) == 2)))
        for kind in ("Normal", "Poisson", "Gamma", "NegBinom"):
            forms = ["scalar", "per_state", "full"] if kind != "Poisson" else ["scalar"]
            for k, sf in enumerate(forms):
                sel = [("J", "S"), ("R",), ("S", "R")][k % 3]
                us.append(cost_unit(kind, sel, None if k != 1 else ("gamma",), 2, weighted=(kind == "Normal" and k == 0), spread_form=sf))
        us.append(cost_unit("Square", ("J", "S"), None, 2, weighted=True, entry="residual"))
        us.append(cost_unit("Square", ("R",), ("beta",), 3, entry="residual"))
        us.append(cost_unit("Square", ("J", "S"), None, 2, entry="costIV"))
        us.append(cost_unit("Square", ("S",), ("gamma",), 2, entry="costIV", ts_sel=("R", "S")))
        us.append(cost_unit("Normal", ("R", "J"), None, 2, entry="costIV", ts_sel=("J",)))
        # the documented option apply_weighting=False on weighted objects, every entry point
        us.append(cost_unit("Square", ("J", "S"), None, 2, weighted=True, entry="cost", aw=False))
        us.append(cost_unit("Normal", ("R", "J"), ("gamma",), 2, weighted=True, entry="costIV", ts_sel=("J",), aw=False))
        us.append(cost_unit("Square", ("S",), None, 2, weighted=True, entry="costIV", aw=False))
        us.append(cost_unit("Square", ("R", "J"), None, 2, weighted=True, entry="residual", aw=False))
        # typed initial state (the caller's float64 array) with an initial-value evaluation: the caller's array stays as it was
        us.append(cost_unit("Square", ("J",), None, 2, entry="costIV", ts_sel=("J", "S"), x0_kind="float64"))
        us.append(cost_unit("Square", ("R", "J"), ("gamma",), 2, entry="cost", x0_kind="float64"))
        us.append(cost_unit("Square", ("J",), None, 2, entry="costIV", ts_sel=("J",), x0_kind="int_list"))
        us.append(cost_unit("Normal", ("R", "J"), ("gamma",), 2, entry="costIV", ts_sel=("S", "R"), x0_kind="int64"))
        # typed time inputs: integer observation times (array / list) with a fractional initial time
        us.append(cost_unit("Square", ("J", "S"), None, 2, time_kind="int_array"))
        us.append(cost_unit("Normal", ("R",), ("gamma",), 3, time_kind="int_list"))
        us.append(cost_unit("Square", ("S",), None, 2, entry="costIV", time_kind="int_array"))
        us.append(cost_unit("Square", ("J", "S"), None, 2, entry="residual", time_kind="int_array"))
        # typed observations (int64 arrays), every loss class
        for kind, sf in (("Square", "scalar"), ("Normal", "per_state"), ("Poisson", "scalar"), ("Gamma", "scalar"), ("NegBinom", "full")):
            us.append(cost_unit(kind, ("R", "J") if kind != "Gamma" else ("J",), None, 2, spread_form=sf, y_kind="int64"))
        # every accepted weight form: per-state vector (p,), single scalar [w], with n != p so that the forms cannot be confused
        us.append(cost_unit("Square", ("R", "J"), None, 3, weighted="per_state"))
        us.append(cost_unit("Normal", ("J", "S"), ("gamma",), 3, weighted="per_state", spread_form="per_state"))
        us.append(cost_unit("Square", ("R", "J"), None, 3, weighted="scalar"))
        us.append(cost_unit("Square", ("S",), None, 3, weighted="scalar", entry="residual"))
        if tier != "quick":
            for kind in ("Poisson", "Gamma", "NegBinom"):
                us.append(cost_unit(kind, ("J",), None, 2, time_kind="int_array"))
            us.append(cost_unit("Square", ("R", "J"), ("beta",), 3, time_kind="float_array"))
        if tier != "quick":
            for kind in ("Normal", "Poisson", "Gamma", "NegBinom"):
                for sel in [("S",), ("R", "J"), ("R", "S", "J")]:
                    us.append(cost_unit(kind, sel, ("gamma", "beta"), 3, spread_form="full" if kind != "Poisson" else "scalar"))
        return us


CHECK = C06()
