"""C08 -- evaluators never go stale after a model is modified."""
import copy
import itertools
import numpy as np

from .. import sym, expr
from ..core import Check, Unit
from ..sym import Sym, all_close, close
from .c01 import chunks

EVALS = ["ode", "jacobian", "grad", "diff_jacobian", "grad_jacobian", "vMat", "eventRateVector", "pureOdeVector",
         "transitionJacobian", "transitionMean", "transitionVar"]

V = expr.Var


def base_spec():
    return expr.ModelSpec("base", ["S", "J", "R"], ["b", "g"], [expr.Ev(V("b") * V("S") * V("J"), [expr.Tr("T", "S", "J")])])


def mutators():
    """name -> (apply to the real model, apply to the shadow definition)"""
    from pygom import Transition, Event
    M = {}

    def add_transition(m, sh):
        m.add_transition(Transition(origin="J", destination="R", equation="g*J", transition_type="T"))
        sh.events.append(expr.Ev(V("g") * V("J"), [expr.Tr("T", "J", "R")]))
    M["add_transition"] = add_transition

    def add_event(m, sh):
        m.add_event(Event(rate="g*J*J", transition_list=[Transition(origin="J", destination="R", transition_type="T", magnitude="2")]))
        sh.events.append(expr.Ev(V("g") * V("J") * V("J"), [expr.Tr("T", "J", "R", magnitude=2)]))
    M["add_event"] = add_event

    def add_event_single(m, sh):
        m.add_event(Transition(origin="R", destination="S", equation="g*R", transition_type="T"))
        sh.events.append(expr.Ev(V("g") * V("R"), [expr.Tr("T", "R", "S")]))
    M["add_event(transition)"] = add_event_single

    def add_birth(m, sh):
        m.add_birth_death(Transition(origin="S", equation="b*b", transition_type="B"))
        sh.events.append(expr.Ev(V("b") * V("b"), [expr.Tr("B", destination="S")]))
    M["add_birth"] = add_birth

    def add_death(m, sh):
        m.add_birth_death(Transition(origin="R", equation="g*R", transition_type="D"))
        sh.events.append(expr.Ev(V("g") * V("R"), [expr.Tr("D", origin="R")]))
    M["add_death"] = add_death

    def add_ode(m, sh):
        m.add_ode(Transition(origin="R", equation="-g*R*S", transition_type="ODE"))
        sh.odes.append(("R", -(V("g") * V("R") * V("S"))))
    M["add_ode"] = add_ode

    def add_param(m, sh):
        m.param_list = ["k"]
        sh.params.append("k")
        m.add_event(Event(rate="k*S", transition_list=[Transition(origin="S", transition_type="D")]))
        sh.events.append(expr.Ev(V("k") * V("S"), [expr.Tr("D", origin="S")]))
    M["add_param+event"] = add_param

    def add_derived(m, sh):
        m.derived_param_list = [("dd", "b*g")]
        sh.derived.append(("dd", V("b") * V("g")))
        m.add_event(Event(rate="dd*R", transition_list=[Transition(origin="R", destination="S", transition_type="T")]))
        sh.events.append(expr.Ev(V("dd") * V("R"), [expr.Tr("T", "R", "S")]))
    M["add_derived+event"] = add_derived

    def set_params(m, sh):
        sh.rebinding += 1
    M["parameters="] = set_params

    def set_params_dict(m, sh):
        sh.rebinding += 1
    M["parameters=dict"] = set_params_dict

    # the parameter list extended by assigning the OLD names plus the new one (m.param_list = m.param_list + ['k'])
    def add_param_redeclare(m, sh):
        m.param_list = [str(p_) for p_ in m.param_list] + ["k"]
        sh.params.append("k")
        m.add_event(Event(rate="k*S", transition_list=[Transition(origin="S", transition_type="D")]))
        sh.events.append(expr.Ev(V("k") * V("S"), [expr.Tr("D", origin="S")]))
    M["add_param(old names + new)+event"] = add_param_redeclare

    # definition changes that leave the ODE right-hand side untouched (a declared but still unused quantity)
    def add_param_only(m, sh):
        m.param_list = ["k"]
        sh.params.append("k")
    M["add_param_only"] = add_param_only

    def add_derived_only(m, sh):
        m.derived_param_list = [("dd", "b*g")]
        sh.derived.append(("dd", V("b") * V("g")))
    M["add_derived_only"] = add_derived_only

    # an existing derived parameter defined AGAIN under the same name (the later definition replaces the earlier one);
    # on a model that does not have it yet this first declares it and an event that uses it
    def redefine_derived(m, sh):
        if not any(nm == "dd" for nm, _ in sh.derived):
            add_derived(m, sh)
            return
        m.derived_param_list = [("dd", "b+g")]
        sh.derived = [(nm, e) if nm != "dd" else ("dd", V("b") + V("g")) for nm, e in sh.derived]
    M["redefine_derived"] = redefine_derived
    return M


class Shadow(object):
    def __init__(self):
        b = base_spec()
        self.states, self.params, self.events, self.odes, self.derived = list(b.states), list(b.params), list(b.events), [], []
        self.rebinding = 0

    def spec(self):
        return expr.ModelSpec("shadow", list(self.states), list(self.params), list(self.events), list(self.odes), list(self.derived))


def history_unit(hists, idx):
    def h(c):
        M = mutators()
        for hi, hist in enumerate(hists):
            pre, muts, mid, post = hist[:4]
            fresh_first = len(hist) > 4 and hist[4]
            mode = hist[5] if len(hist) > 5 else None
            tag = "h%d" % hi
            m = base_spec().build()
            sh = Shadow()
            x = [c.real("x_" + s) for s in sh.states]
            t = c.real("t")
            vals = {p: c.real("%s_v0_%s" % (tag, p)) for p in sh.params}
            m.parameters = [vals[p] for p in sh.params]

            def rebind(step, partial_dict=False):
                if partial_dict:
                    # a partial update BY NAME of the first parameter only (after the positional assignment above)
                    p0 = sh.params[0]
                    vals[p0] = c.real("%s_v%d_%s" % (tag, step, p0))
                    m.parameters = {p0: vals[p0]}
                    return
                for p in sh.params:
                    vals[p] = c.real("%s_v%d_%s" % (tag, step, p))
                m.parameters = [vals[p] for p in sh.params]
            for f in pre:
                getattr(m, f)(x, t)
            original = None
            if mode == "copy":
                # carry on with a deep copy: the modifications are made to the copy, the original keeps its definition
                original, vals0 = m, dict(vals)
                m = copy.deepcopy(m)
            for k, mu in enumerate(muts):
                M[mu](m, sh)
                if mode == "eval_before_values" and mu in ("add_param+event", "add_param_only"):
                    # an evaluation attempted while the new parameter has no value yet (whatever it does -- a value,
                    # an exception -- it must not leave the evaluators unusable once the values are supplied)
                    for f in (mid or post):
                        try:
                            getattr(m, f)(x, t)
                        except Exception:
                            pass
                if mu in ("parameters=", "add_param+event", "add_param_only", "add_param(old names + new)+event"):
                    rebind(k + 1)
                if mu == "parameters=dict":
                    rebind(k + 1, partial_dict=True)
                if k < len(muts) - 1:
                    for f in mid:
                        getattr(m, f)(x, t)
            # a freshly constructed model with the same final definition
            spec = sh.spec()
            fresh = spec.build()
            fresh.parameters = [vals[p] for p in sh.params]
            label = "[%s | %s | %s | %s%s%s]" % (",".join(pre) or "-", ",".join(muts), ",".join(mid) or "-", ",".join(post),
                                                  " | reference model evaluated first" if fresh_first else "",
                                                  {None: "", "copy": " | mutations on a deep copy", "eval_before_values": " | evaluated before the new parameter had a value"}[mode])
            env = dict(zip(sh.states, x))
            env["t"] = t
            env.update(vals)
            for f in post:
                if mode is not None:
                    try:
                        got = np.asarray(getattr(m, f)(x, t), dtype=object)
                    except sym.Abort:
                        raise
                    except Exception as e:      # noqa
                        c.prove(False, "%s %s == fresh model with the same final definition [raised %s]" % (label, f, type(e).__name__))
                        continue
                    want = np.asarray(getattr(fresh, f)(x, t), dtype=object)
                elif fresh_first:
                    # two models alive in one process: the reference is evaluated BEFORE the modified model
                    want = np.asarray(getattr(fresh, f)(x, t), dtype=object)
                    got = np.asarray(getattr(m, f)(x, t), dtype=object)
                else:
                    got = np.asarray(getattr(m, f)(x, t), dtype=object)
                    want = np.asarray(getattr(fresh, f)(x, t), dtype=object)
                if got.shape != want.shape:
                    c.prove(False, "%s %s has the shape a fresh model returns" % (label, f))
                    continue
                c.prove(all_close(got, want, c), "%s %s == fresh model with the same final definition" % (label, f))
                if f == "ode":
                    c.prove(all_close(got, [expr.ev(e, env) for e in spec.rhs()], c), "%s ode == oracle of the final definition" % label)
            if original is not None:
                env0 = dict(zip(sh.states, x))
                env0["t"] = t
                env0.update(vals0)
                c.prove(all_close(np.asarray(original.ode(x, t), dtype=object), [expr.ev(e, env0) for e in base_spec().rhs()], c),
                        "%s the model that was copied still evaluates its own definition" % label)
    return Unit("C08.histories[chunk %d: %d histories, first=%s]" % (idx, len(hists), hists[0][1]), h,
                bounds={"histories": len(hists), "shape": "[evals] . mutate . [evals] . [mutate] . evals"},
                program={"chunk": idx, "n": len(hists)}, n_programs=len(hists), max_paths=5)


def histories(tier):
    ms = list(mutators().keys())
    H = []
    for f in EVALS:
        for mu in ms:
            for pre in ([], [f], ["ode", f], list(EVALS)):
                for post in ([f, "ode", f], ["ode", f]):
                    H.append((tuple(pre), (mu,), (), tuple(post)))
    # a second model of the same class evaluates first (process-wide state must not leak between models)
    for f in EVALS:
        for mu in (ms if tier != "quick" else ms[::2]):
            H.append(((f,), (mu,), (), (f,), True))
            if tier != "quick":
                H.append((tuple(EVALS), (mu,), (), tuple(EVALS), True))
    # two mutators that declare the same new name cannot be combined in one history
    clash = [{"add_param+event", "add_param_only"}, {"add_param+event", "add_param(old names + new)+event"}, {"add_param_only", "add_param(old names + new)+event"}, {"add_derived+event", "add_derived_only"}, {"add_derived+event", "redefine_derived"}, {"add_derived_only", "redefine_derived"}]
    pairs = [(a, b) for a in ms for b in ms if a != b and {a, b} not in clash]
    if tier == "quick":
        pairs = pairs[::5]
    for (a, b) in pairs:
        for f in (EVALS if tier != "quick" else EVALS[::3]):
            H.append(((f,), (a, b), (f,), (f, "ode", f)))
            H.append((tuple(EVALS), (a, b), (), tuple(EVALS)))
    # an evaluation squeezed in between declaring a parameter and giving it a value; modifications made to a deep copy
    for f in (EVALS if tier != "quick" else EVALS[::2]):
        for mu in ("add_param+event", "add_param_only"):
            H.append(((f,), (mu,), (), (f, "ode"), False, "eval_before_values"))
        for mu in (ms if tier != "quick" else ["add_transition", "add_birth", "add_ode", "add_param+event", "add_derived+event", "parameters="]):
            H.append(((f,), (mu,), (), (f, "ode"), False, "copy"))
            H.append(((), (mu,), (), ("ode", f), False, "copy"))
    for f in (EVALS if tier != "quick" else EVALS[::2]):
        for a in ("add_derived+event", "add_derived_only"):
            H.append(((f,), (a, "redefine_derived"), (f,), (f, "ode", f)))
            H.append(((), (a, "redefine_derived"), ("ode", f), ("ode", f)))
    return H


class C08(Check):
    id = "C08"
    level = "model_checking"
    explanation = ("Bounded histories [evaluate]* . mutate . [evaluate]* . [mutate] . evaluate over all 11 evaluators and 11 mutators (two of which declare a parameter / derived parameter WITHOUT changing the right-hand side; legacy "
                   "transition, Event, single-Transition event, birth, death, explicit ODE, new parameter + event, derived parameter + event, "
                   "new parameter values) on a real model, each evaluator observed after the last step in both recompilation orders (evaluator "
                   "first / ode first) and in both observation orders (modified model first / reference model first -- two models alive in one "
                   "process): z3 proves that what the mutated model returns equals what a freshly constructed model with the same "
                   "final definition returns, for all evaluation points and parameter values, and that ode equals the oracle of the final definition.  "
                   "Two further history shapes: an evaluation attempted between declaring a parameter and giving it a value, and modifications "
                   "made to a deep copy (the copy must follow its own definition, the original must keep its own).")
    assumptions = ["histories longer than two mutations are not explored", "lambdify back-end"]

    def units(self, tier, seed):
        H = histories(tier)
        self.nH = len(H)
        return [history_unit(ch, i) for i, ch in enumerate(chunks(H, 16 if tier == "quick" else 64))]

    def extra(self, tier, seed):
        return {"histories": getattr(self, "nH", 0), "states": None} if False else {"histories": getattr(self, "nH", 0)}, []


CHECK = C08()
