"""C18 -- fit stays inside the box and never returns something worse than its start
(decided relative to scipy.optimize.minimize's contract)."""
import numpy as np
import z3

from .. import sym, stubs, expr
from ..core import Check, Unit
from ..sym import Sym, SymBool, all_close, close, near
from .stoch import zsum, arr, conj
from .c06 import build_loss, loss_patches, last_flow, STATES, PARAMS, ref_solution
from .c07 import _first_flow_of_call, NS, NP


class MinimizeStub(object):
    """contract of scipy.optimize.minimize for L-BFGS-B / SLSQP with bounds:
    res.x inside the bounds it was GIVEN, fun(res.x) <= fun(x0); if jac(x0) is zero the start is returned"""

    def __init__(self, c, eval_jac=False):
        self.c = c
        self.calls = []
        self.eval_jac = eval_jac

    def __call__(self, fun=None, x0=None, jac=None, bounds=None, constraints=(), method=None, callback=None, **kw):
        c = self.c
        rec = dict(fun=fun, x0=x0, jac=jac, bounds=bounds, constraints=constraints, method=method, callback=callback)
        self.calls.append(rec)
        n = len(x0)
        if self.eval_jac:
            g = np.asarray(jac(x0), dtype=object).ravel()
            rec["g0"] = g
            zero = c.prove(conj([close(v, 0, c) for v in g]), "gradient at the generating parameters is identically zero")
            if zero:
                return {"x": x0, "success": True}
        xs = []
        for i in range(n):
            xi = c.real("xstar%d" % i)
            lo, hi = bounds[i][0], bounds[i][1]
            if lo is not None:
                c.assume(xi >= lo)
            if hi is not None:
                c.assume(xi <= hi)
            xs.append(xi)
        cost = c.uf("Cost", n)
        c.assume(cost(*xs) <= cost(*list(x0)))
        rec["xstar"] = xs
        rec["cost"] = cost
        return {"x": arr(c, xs), "success": True}


def glue_unit(n, lb_given, ub_given, kind="Square"):
    def h(c):
        if c.mode != "sym":
            return
        from pygom.loss import base_loss
        with stubs.integrator_stubs(c, eig="fixed") as book, stubs.patched(*loss_patches(c)):
            L = build_loss(c, kind, ("J",), None if n == 2 else ("gamma",), None, 2, False, "scalar")
            x = arr(c, [c.real("start%d" % i) for i in range(n)])
            lb = arr(c, [c.real("lb%d" % i) for i in range(n)]) if lb_given else None
            ub = arr(c, [c.real("ub%d" % i) for i in range(n)]) if ub_given else None
            if lb_given and ub_given:
                for i in range(n):
                    c.assume(lb[i] <= ub[i])
            for i in range(n):
                if lb_given:
                    c.assume(lb[i] <= x[i])
                if ub_given:
                    c.assume(x[i] <= ub[i])
            ms = MinimizeStub(c)
            from .stoch import snapshot
            x_snap, lb_snap, ub_snap = snapshot(x), (snapshot(lb) if lb is not None else None), (snapshot(ub) if ub is not None else None)
            with stubs.patched((base_loss, "minimize", ms)):
                out = L.obj.fit(x, lb, ub)
                out2, res = L.obj.fit(x, lb, ub, full_output=True)
        c.reachable("fit returned")
        from .stoch import unchanged
        c.prove(unchanged(x, x_snap, c) and (lb is None or unchanged(lb, lb_snap, c)) and (ub is None or unchanged(ub, ub_snap, c)),
                "fit does not modify the start point or the bound arrays handed in")
        c.prove(len(ms.calls) == 2, "one optimiser call per fit")
        rec = ms.calls[0]
        c.prove(rec["fun"] == L.obj.cost, "objective handed to the optimiser is cost")
        c.prove(rec["jac"] == L.obj.sensitivity, "gradient handed to the optimiser is sensitivity")
        c.prove(rec["x0"] is x, "optimiser starts from the initial guess")
        c.prove(rec["method"] == "L-BFGS-B" and list(rec["constraints"]) == [], "box-constrained quasi-Newton method without extra constraints")
        b = rec["bounds"]
        c.prove(len(b) == n and all(len(bi) == 2 for bi in b), "one (lower, upper) pair per variable")
        for i in range(n):
            c.prove((b[i][0] is None) if not lb_given else close(b[i][0], lb[i], c), "bounds[%d].lower is the user's lb[%d]" % (i, i))
            c.prove((b[i][1] is None) if not ub_given else close(b[i][1], ub[i], c), "bounds[%d].upper is the user's ub[%d]" % (i, i))
        xs = list(np.asarray(out, dtype=object).ravel())
        c.prove(len(xs) == n and all(a is b_ for a, b_ in zip(xs, rec["xstar"])), "fit returns the optimiser's point")
        for i in range(n):
            if lb_given:
                c.prove(xs[i] >= lb[i], "returned point respects the user's lower bound %d" % i)
            if ub_given:
                c.prove(xs[i] <= ub[i], "returned point respects the user's upper bound %d" % i)
        c.prove(rec["cost"](*xs) <= rec["cost"](*list(x)), "cost(returned) <= cost(start) (objective IS cost, contract of the optimiser)")
        c.prove(res["x"] is out2, "full_output returns (x, result)")
    return Unit("C18.glue[n=%d,lb=%s,ub=%s,%s]" % (n, lb_given, ub_given, kind), h,
                bounds={"variables": n, "lb": lb_given, "ub": ub_given}, program={"fit": kind, "n": n}, replay=replay_fit)


def noisefree_unit(sel, tp=None, shared_x0=False):
    """shared_x0: the caller keeps ONE float64 array of initial values and builds a second loss object (with target_state)
    from it; an initial-value evaluation on that second object must not leak into the first one's fit"""
    def h(c):
        if c.mode != "sym":
            return
        from pygom.loss import base_loss, ode_loss
        # keyed flows: the same ODE, parameters and initial condition give the same solution (uniqueness)
        with stubs.integrator_stubs(c, eig="fixed", keyed="semantic") as book, stubs.patched(*loss_patches(c)):
            L = build_loss(c, "Square", sel, tp, None, 2, False, "scalar", x0_kind="float64" if shared_x0 else "sym")
            x0_at_construction = [float(v) for v in L.x0] if shared_x0 else None
            if shared_x0:
                other = ode_loss.SquareLoss(arr(c, list(L.theta_full)), L.model, L.x0, L.t0, arr(c, list(L.t)), arr(c, [c.real("oy%d" % i) for i in range(2)]), "J",
                                            target_state=["J"])
                other.costIV(arr(c, [c.real("o_beta", lo=0.05, hi=0.3), c.real("o_gamma", lo=0.2, hi=1.0), 3.0]))
                c.prove(all_close(L.x0, x0_at_construction, c), "the caller's initial-value array is not modified by a loss object built from it")
            # noise-free data: the observations ARE the trajectory of the model with the generating parameters bound
            # BY NAME (independently of how the loss object routes theta): the flow of the augmented system is an
            # uninterpreted function of (t; f(z0), z0, t0), so the loss reproduces it iff it binds the same values
            m_ = L.model
            m_.parameters = {"beta": L.bound["beta"], "gamma": L.bound["gamma"]}
            z0 = arr(c, list(x0_at_construction if shared_x0 else L.x0) + [0] * (NS * NP))
            fl = book.start(z0, L.t0, fval=m_.ode_and_sensitivity(z0, L.t0))
            rows = [book.at(fl, ti) for ti in L.t]
            for i in range(2):
                for j, s in enumerate(L.idx):
                    c.assume(close(L.y[i][j], rows[i][s], c))
            nfree = len(L.theta)
            lb = arr(c, [c.real("lb%d" % i) for i in range(nfree)])
            ub = arr(c, [c.real("ub%d" % i) for i in range(nfree)])
            for i in range(nfree):
                c.assume(lb[i] <= L.theta[i])
                c.assume(L.theta[i] <= ub[i])
            ms = MinimizeStub(c, eval_jac=True)
            with stubs.patched((base_loss, "minimize", ms)):
                out = L.obj.fit(L.theta_arg, lb, ub)
        c.reachable("fit returned")
        c.prove(out is L.theta_arg, "started at the generating parameters of noise-free data, fit returns them")
    return Unit("C18.noisefree[states=%s,target=%s%s]" % ("+".join(sel), "all" if tp is None else "+".join(tp), ",shared_x0" if shared_x0 else ""), h,
                bounds={"times": 2, "observed_states": list(sel), "target_param": tp}, program={"fit": "noisefree", "sel": list(sel), "tp": tp},
                replay=replay_fit)


def replay_fit(vals, label):
    """end-to-end on the real code with the real L-BFGS-B: noise-free SIR data"""
    from pygom import SquareLoss
    from .. import models
    m = models.sir3()
    th = [0.2, 0.5]
    x0 = [8.0, 1.0, 0.0]
    t = np.array([1.0, 2.0, 3.0, 4.0])
    m.parameters = th
    m.initial_values = (x0, 0.0)
    y = m.integrate(t)[1:, 1]
    bad = {}
    L = SquareLoss(th, m, x0, 0.0, t, y, "J")
    # (i) the counter-model's box through the real fit, the real optimiser replaced by a plain recorder:
    #     what fit hands over must be the user's (lb_i, ub_i) pairs
    from pygom.loss import base_loss
    nvar = 2
    have_lb = all(("lb%d" % i) in vals for i in range(nvar))
    have_ub = all(("ub%d" % i) in vals for i in range(nvar))
    if have_lb or have_ub:
        lbv = np.array([float(vals["lb%d" % i]) for i in range(nvar)]) if have_lb else None
        ubv = np.array([float(vals["ub%d" % i]) for i in range(nvar)]) if have_ub else None
        startv = np.array([float(vals.get("start%d" % i, 0.3)) for i in range(nvar)])
        seen = {}

        def recorder(fun=None, x0=None, jac=None, bounds=None, **kw):
            seen["bounds"] = [tuple(b) for b in bounds]
            return {"x": x0, "success": True}
        with stubs.patched((base_loss, "minimize", recorder)):
            L.fit(startv, lbv, ubv)
        for i, b in enumerate(seen.get("bounds", [])):
            want = (None if lbv is None else float(lbv[i]), None if ubv is None else float(ubv[i]))
            got = tuple(None if v is None else float(v) for v in b)
            if got != want:
                bad["bounds_handed_to_optimiser[%d]" % i] = {"got": got, "user": want}
    lb, ub = np.array([0.05, 0.1]), np.array([0.5, 1.5])
    r = L.fit(np.array(th), lb, ub)
    if np.max(np.abs(np.asarray(r) - np.array(th))) > 1e-4:
        bad["noisefree_returns_start"] = list(map(float, r))
    # the same with the free parameters named in NON-model order (theta, lb, ub follow the order of the names)
    L2 = SquareLoss([th[1], th[0]], m, x0, 0.0, t, y, "J", target_param=["gamma", "beta"])
    r2p = L2.fit(np.array([th[1], th[0]]), np.array([0.1, 0.05]), np.array([1.5, 0.5]))
    if np.max(np.abs(np.asarray(r2p) - np.array([th[1], th[0]]))) > 1e-3:
        bad["noisefree_returns_start[target_param=gamma,beta]"] = list(map(float, r2p))
    L3 = SquareLoss([th[1]], m, x0, 0.0, t, y, "J", target_param=["gamma"])
    m.parameters = th
    r3 = L3.fit(np.array([th[1]]), np.array([0.1]), np.array([1.5]))
    if np.max(np.abs(np.asarray(r3) - np.array([th[1]]))) > 1e-3:
        bad["noisefree_returns_start[target_param=gamma]"] = list(map(float, r3))
    # as many observation times as observed states (a square observation matrix) and several states at several times
    for names, tt in ((["J", "R"], np.array([1.5, 3.0])), (["R", "S", "J"], np.array([1.0, 2.0, 4.0])), (["S", "J"], t)):
        m.parameters = th
        m.initial_values = (x0, 0.0)
        sol = m.integrate(tt)[1:, :]
        yy = np.column_stack([sol[:, ["S", "J", "R"].index(nm)] for nm in names])
        Lq = SquareLoss(th, m, x0, 0.0, tt, yy, names)
        rq = Lq.fit(np.array(th), lb, ub)
        if np.max(np.abs(np.asarray(rq) - np.array(th))) > 1e-4:
            bad["noisefree_returns_start[states=%s at %d times]" % ("+".join(names), len(tt))] = list(map(float, rq))
    m.parameters = th
    # one float64 array of initial values shared by two loss objects; an initial-value evaluation on the second one
    # (target_state given) must not move the first one's landscape
    x0a = np.array(x0, dtype=np.float64)
    La = SquareLoss(th, m, x0a, 0.0, t, y, "J")
    Lb = SquareLoss(th, m, x0a, 0.0, t, y, "J", target_state=["J"])
    Lb.costIV(np.array(th + [3.0]))
    if list(x0a) != list(x0):
        bad["caller_x0_modified"] = list(map(float, x0a))
    ra = La.fit(np.array(th), lb, ub)
    if np.max(np.abs(np.asarray(ra) - np.array(th))) > 1e-4:
        bad["noisefree_returns_start[x0 array shared with a second object]"] = list(map(float, ra))
    m.parameters = th
    start = np.array([0.4, 0.2])
    r2 = L.fit(start, lb, ub)
    if np.any(r2 < lb - 1e-12) or np.any(r2 > ub + 1e-12):
        bad["outside_box"] = list(map(float, r2))
    if L.cost(r2) > L.cost(start) + 1e-12:
        bad["worse_than_start"] = [float(L.cost(r2)), float(L.cost(start))]
    return bool(bad), bad


class C18(Check):
    id = "C18"
    level = "other"
    explanation = ("The optimiser itself is compiled code: the property is decided RELATIVE to scipy.optimize.minimize's contract (result inside "
                   "the bounds it is given, objective not above the start, a zero gradient at the start returns the start).  What PyGOM owns is "
                   "executed symbolically: BaseLoss.fit's bounds packing (Fortran-order reshape of lb/ub, None handling), method choice and the "
                   "wiring fun=cost / jac=sensitivity / x0=x, for symbolic x, lb, ub; and the noise-free corollary: with observations equal to the "
                   "trajectory of the model bound BY NAME (independently of how the loss routes theta), the real sensitivity(theta) is proved identically "
                   "zero -- for all parameters, a subset and a non-model order of target_param -- so the contract returns the start; also when the caller's "
                   "float64 x0 array is shared with a second loss object on which an initial-value evaluation ran in between.")
    stubs = ["scipy.optimize.minimize contract", "scipy.integrate.ode contract", "np.linalg.eig fixed"]
    assumptions = ["L-BFGS-B/SLSQP meet their contract (compiled optimiser, not decided)", "floats as reals"]

    def units(self, tier, seed):
        us = [glue_unit(2, True, True), glue_unit(1, True, True), glue_unit(2, False, True), glue_unit(2, True, False), glue_unit(2, False, False),
              noisefree_unit(("J",)), noisefree_unit(("R", "S")), noisefree_unit(("J", "S"), ("gamma", "beta")), noisefree_unit(("R",), ("gamma",)),
              noisefree_unit(("J",), shared_x0=True)]
        if tier != "quick":
            us += [glue_unit(2, True, True, "Normal"), glue_unit(2, True, True, "Poisson"), noisefree_unit(("R", "S", "J"))]
            # every loss class x every lb/ub presence x both numbers of free parameters; every selection/target order for the noise-free corollary
            for kind in ("Square", "Normal", "Poisson", "Gamma", "NegBinom"):
                for n_ in (1, 2):
                    for lbg, ubg in ((True, True), (True, False), (False, True), (False, False)):
                        if kind == "Square" and n_ == 2:
                            continue        # already in the quick list
                        us.append(glue_unit(n_, lbg, ubg, kind))
            from .c06 import SELECTIONS, TARGETS
            seen = {u.name for u in us}
            for sel in SELECTIONS:
                for tp in TARGETS:
                    u = noisefree_unit(tuple(sel), tuple(tp) if tp is not None else None)
                    if u.name not in seen:
                        seen.add(u.name)
                        us.append(u)
            us.append(noisefree_unit(("R", "J"), shared_x0=True))
        return us


CHECK = C18()
