"""C02 -- deterministic solvers return the solution at each requested time.

Real code executed symbolically: ode_utils.integrateFuncJac, _integrateOneStep,
_setupIntegrator, _determineIntegratorGivenEigenValue, ode_utils.integrate,
DeterministicOde.integrate/integrate2/_setIntegrateTime/_integrate/_integrate2,
SimulateOde.solve_determ.  The Fortran integrators are replaced by their
contract (stubs.StubOde / StubOdeint): integrate(t) returns the flow value
X(t) (uninterpreted function of t), with the buffer reuse policy measured on
the installed scipy.
"""
import math
import numpy as np

from .. import sym, stubs, models
from ..core import Check, Unit
from ..sym import all_close, close

METHODS = [None, "lsoda", "vode", "ivode", "dopri5", "dop853"]
FORMS = ["list", "tuple", "array", "scalar", "int_array", "int_list", "int_tuple", "from_t0"]


def _grid(c, k, form):
    if form.startswith("int_"):
        # TYPED time input: integer-typed requested times with a fractional initial time (a dtype is enumerated,
        # not symbolic): whatever assembles the time vector must not cast t0 to the grid's dtype
        t0 = 0.5
        ts = [int(j + 1) for j in range(k)]
        g = {"int_array": np.arange(1, k + 1), "int_list": list(ts), "int_tuple": tuple(ts)}[form]
        return t0, ts, g
    t0 = c.real("t0")
    ts = []
    prev = t0
    if form == "from_t0":
        # boundary grid: the first requested time IS the initial time (np.linspace(t0, T, n) handed over whole)
        ts.append(t0)
    for j in range(k - len(ts)):
        tj = c.real("t%d" % (j + 1))
        c.assume(tj > prev)
        prev = tj
        ts.append(tj)
    if form in ("list", "from_t0"):
        g = list(ts)
    elif form == "tuple":
        g = tuple(ts)
    elif form == "array":
        g = np.array(ts, dtype=object if c.mode == "sym" else float)
    else:
        g = ts[0]
    return t0, ts, g


def ifj_unit(method, full_output, include_origin, n, k):
    """direct calls of integrateFuncJac on dx_i/dt = -a_i x_i"""
    from pygom.model import ode_utils

    def h(c):
        form = FORMS[c.choice("form", len(FORMS))]
        kk = 1 if form == "scalar" else k
        a = c.vec("a", n, lo=0.5, hi=3)
        x0 = c.vec("x", n, lo=1, hi=20)
        t0, ts, g = _grid(c, kk, form)
        if c.mode == "concrete":
            for tj in ts:
                c.assume(tj - t0 < 20)
        func = lambda t, y: -a * y
        jac = lambda t, y: np.diag(list(-a)) if c.mode == "sym" else np.diag(-a)
        x0_before = [v for v in x0]
        if c.mode == "sym":
            with stubs.integrator_stubs(c) as book:
                r = ode_utils.integrateFuncJac(func, jac, x0, t0, g, includeOrigin=include_origin,
                                               full_output=full_output, method=method)
                expected = [book.at(0, tj) for tj in ts]
                probes = list(book.probes)
        else:
            r = ode_utils.integrateFuncJac(func, jac, x0, t0, g, includeOrigin=include_origin,
                                           full_output=full_output, method=method)
            expected = [np.array([x0_before[i] * math.exp(-a[i] * (tj - t0)) for i in range(n)]) for tj in ts]
            probes = []
        sol = r[0] if full_output else r
        c.prove(len(sol) == kk + (1 if include_origin else 0), "one row per requested time")
        off = 0
        if include_origin:
            c.prove(all_close(sol[0], x0_before, c), "row 0 is the initial state")
            off = 1
        for j in range(kk):
            c.prove(all_close(sol[off + j], expected[j], c), "row %d is the solution at t_%d" % (j + 1, j + 1))
        c.prove(all_close(x0, x0_before, c), "caller's x0 is not modified")
        for kind, integ, tp, yp, val in probes:
            if kind == "f":
                c.prove(all_close(val, -a * yp, c), "integrator evaluates f(t,y) in (t,y) order")
            if kind in ("f", "f_odeint") and integ is probes[0][1]:
                c.prove(close(tp, t0, c), "integration starts at the supplied initial time")
        if full_output:
            out = r[1]
            c.prove(len(out["suc"]) == kk and len(out["ev"]) == kk and len(out["maxev"]) == kk
                    and len(out["minev"]) == kk, "full_output lists have one entry per time")
            c.prove(out["in"] in ("lsoda", "vode", "ivode", "dopri5", "dop853"), "integrator name reported")
    return Unit("ifj[method=%s,full=%s,origin=%s,n=%d,k=%d]" % (method, full_output, include_origin, n, k), h,
                bounds={"states": n, "times": k, "grid_forms": FORMS},
                tol=2e-5, max_paths=9000)


def _ref_solution(b, g, x0, t0, ts):
    """independent reference: tight-tolerance DOP853 on the hand-written SIR right-hand side"""
    from scipy.integrate import solve_ivp
    f = lambda t, y: [-b * y[0] * y[1], b * y[0] * y[1] - g * y[1]]
    s = solve_ivp(f, (t0, ts[-1]), list(x0), method="DOP853", t_eval=ts, rtol=1e-12, atol=1e-13)
    return [s.y[:, j] for j in range(len(ts))]


def model_unit(entry, method, full_output, k):
    """entry points of the model classes on the 2-state infection model"""

    def h(c):
        form = FORMS[c.choice("form", len(FORMS))]
        kk = 1 if form == "scalar" else k
        m = models.cached("sir2")
        b = c.real("b", lo=0.05, hi=0.2)
        g = c.real("g", lo=0.5, hi=2)
        m.parameters = [b, g]
        x0 = c.vec("x", 2, lo=1, hi=10)
        x0_before = [v for v in x0]
        t0, ts, grid = _grid(c, kk, form)
        if c.mode == "concrete":
            for tj in ts:
                c.assume(tj - t0 < 10)
        m.initial_values = (x0, t0)

        def call():
            if entry == "integrate":
                return m.integrate(grid, full_output=full_output)
            if entry == "integrate2":
                return m.integrate2(grid, full_output=full_output, method=method)
            if entry == "solve_determ":
                return m.solve_determ(grid)
            raise ValueError(entry)
        if c.mode == "sym":
            with stubs.integrator_stubs(c) as book:
                r = call()
                expected = [book.at(0, tj) for tj in ts]
                probes = list(book.probes)
        else:
            r = call()
            expected = _ref_solution(b, g, x0_before, t0, ts)
            probes = []
        sol = r[0] if (full_output and entry != "solve_determ") else r
        c.prove(len(sol) == kk + 1, "one row per requested time plus the origin")
        c.prove(all_close(sol[0], x0_before, c), "row 0 is the initial state")
        for j in range(kk):
            c.prove(all_close(sol[1 + j], expected[j], c), "row %d is the solution at t_%d" % (j + 1, j + 1))
        c.prove(all_close(m.initial_state, x0_before, c), "model initial state is not modified")
        for kind, integ, tp, yp, val in probes:
            S, J = yp[0], yp[1]
            if kind in ("f", "f_odeint") and integ is probes[0][1]:
                c.prove(close(tp, t0, c), "integration starts at the supplied initial time")
            if kind in ("f", "f_odeint"):
                c.prove(all_close(val, [-b * S * J, b * S * J - g * J], c), "integrator is handed the model's f with the right argument order")
            else:
                c.prove(all_close(val, [[-b * J, -b * S], [b * J, b * S - g]], c), "integrator is handed the model's Jacobian with the right argument order")
    return Unit("model[%s,method=%s,full=%s,k=%d]" % (entry, method, full_output, k), h,
                bounds={"states": 2, "times": k, "model": "S'=-bSJ, J'=bSJ-gJ", "grid_forms": FORMS},
                tol=2e-5, max_paths=9000, program={"model": "sir2", "entry": entry})


class C02(Check):
    id = "C02"
    level = "other"
    explanation = ("Bounded symbolic execution of every deterministic solving entry point with symbolic initial state, "
                   "symbolic non-uniform time grid, symbolic rates/parameters and symbolic eigenvalues (integrator re-selection), "
                   "against the contract of scipy's integrators (integrate(t) yields the flow value X(t), an uninterpreted "
                   "function; output-buffer reuse policy measured on the installed scipy). z3 decides, for all values, that "
                   "row j IS the term X(t_j), that the origin row is x0, that the row count is right and that the callable "
                   "handed to the integrator is the model's f/Jacobian in the argument order that integrator expects. "
                   "Counterexamples are replayed with real floats and the real Fortran integrators against a closed-form / "
                   "tight-tolerance reference solution.  Requested times are given as symbolic reals (list/tuple/array/scalar) and as TYPED integer grids "
                   "(int array/list/tuple with a fractional t0): the first evaluation handed to the integrator must be at the supplied t0; and as a grid whose "
                   "first requested time IS the initial time.")
    stubs = ["scipy.integrate.ode (contract, measured buffer policy)", "scipy.integrate.odeint (contract)", "numpy.linalg.eig (free real eigenvalues)"]
    assumptions = ["scipy's integrators return the ODE solution at the requested time to their tolerance (Fortran; not decided here)",
                   "floats modelled as reals; finite inputs; strictly increasing time grid",
                   "real eigenvalues (complex spectra outside the claim)"]

    def units(self, tier, seed):
        us = []
        n, k = (2, 2) if tier == "quick" else (2, 3)
        for m in METHODS:
            for fo in (False, True):
                for io in (False, True):
                    if m is None and fo:
                        us.append(ifj_unit(m, fo, io, n, 2 if tier == "quick" else 2))
                    else:
                        us.append(ifj_unit(m, fo, io, n, k))
        for fo in (False, True):
            us.append(model_unit("integrate", None, fo, k))
        us.append(model_unit("solve_determ", None, False, k))
        for m in METHODS:
            for fo in (False, True):
                us.append(model_unit("integrate2", m, fo, 2 if m is None else k))
        return us

    def extra(self, tier, seed):
        return {"integrator_buffer_policy_measured": stubs.measure_buffer_policy()}, []


CHECK = C02()
