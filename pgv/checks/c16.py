"""C16 -- seeded serial simulations are reproducible (2-safety by self-composition)."""
import numpy as np
import z3

from .. import sym, stubs, expr
from ..core import Check, Unit
from ..sym import Sym, SymBool, all_close, close
from .stoch import zsum, conj, disj, arr, make_stream, global_rng, tau_helper_stub, sym_float_shim
from .c01 import built
from .c04 import shape_specs


class FreshEntropy(object):
    """every un-seeded entropy source is a fresh unconstrained stream per instantiation"""
    count = 0

    def __init__(self, c):
        self.c = c

    def RandomState(self, seed=None):
        FreshEntropy.count += 1
        if seed is None:
            return make_stream(self.c, "fresh%d" % FreshEntropy.count)
        return make_stream(self.c, "seed[%s]" % (seed,))


def flat(o):
    out = []
    if isinstance(o, (list, tuple)):
        for v in o:
            out += flat(v)
    elif isinstance(o, np.ndarray):
        for v in o.ravel():
            out += flat(v)
    else:
        out.append(o)
    return out


def same(a, b, c):
    fa, fb = flat(a), flat(b)
    if len(fa) != len(fb):
        return False
    return all_close(fa, fb, c) if fa else True


def stochast_unit(spec, exact, K, witness=False, fixed_tau=False):
    from pygom.model import simulate as simmod
    from pygom.model import stochastic_simulation as ss
    S, E = len(spec.states), len(spec.events)

    def h(c):
        m = built(spec)
        th = [c.real("th_" + p, lo=0, lo_strict=True) for p in spec.params]
        m.parameters = th
        m._stochasticParam = None
        x0 = arr(c, [c.intreal("x%d" % i, lo=0, hi=4) for i in range(S)])
        t0 = c.real("t0")
        T = c.real("T")
        c.assume(T > t0)
        m.initial_values = (x0, t0) if c.mode == "sym" else (np.array(x0, float), np.float64(t0))
        if c.mode == "sym":
            m._x0 = x0
        m.pre_tau = None
        ptau = None
        if fixed_tau:
            # the user's fixed leap size (a setting of the model object: a run must leave it alone)
            ptau = c.real("pre_tau", lo=0, lo_strict=True)
            m.pre_tau = ptau
        m._state_lims = [(0, None)] * S
        real_fr, real_tl = ss.firstReaction, ss.tauLeap
        FreshEntropy.count = 0
        ent = FreshEntropy(c)

        def run(tag):
            calls = {"n": 0}

            def fr(*a, **k):
                calls["n"] += 1
                if calls["n"] > K:
                    return 0, 0, 0, 0, False
                return real_fr(*a, **k)

            def tl(x, x_lims, t, scm, react, tf, tmf, tvf, pure, epsilon=0.03, seed=None, pre_tau=None):
                calls["n"] += 1
                if calls["n"] > K:
                    return 0, 0, 0, 0, False
                if c.mode == "sym":
                    xs = x.view(sym.SymArray) if isinstance(x, np.ndarray) and x.dtype == object else x
                    tfs = lambda a, b: np.asarray(tf(a, b), dtype=object).view(sym.SymArray)
                    return real_tl(xs, x_lims, t, scm, react, tfs, tmf, tvf, pure, epsilon=epsilon, seed=seed, pre_tau=pre_tau)
                return real_tl(x, x_lims, t, scm, react, tf, tmf, tvf, pure, epsilon=epsilon, seed=seed, pre_tau=pre_tau)
            stream = make_stream(c, tag)
            patches = [(simmod, "firstReaction", fr), (simmod, "tauLeap", tl), (np.random, "RandomState", ent.RandomState)]
            if c.mode == "sym":
                # the step-size computation is a deterministic function of the state: a UF of the state suffices here
                adapt = c.uf("tau_adapt", S + 1)

                def adaptive(x, t, rates, tmf, tvf, epsilon):
                    v = adapt(*(list(x) + [t]))
                    c.assume(v > 0)
                    return v
                hf = c.uf("tau_safe", 1)

                def helper(x, lm, r, tau, eps):
                    v = hf(tau)
                    c.assume(v > 0)
                    c.assume(v <= tau)
                    return v, True
                patches += [(ss, "_get_adaptive_tau_step", adaptive), (ss, "_cy_test_tau_leap_safety", helper)]
            with global_rng(stream), sym_float_shim(c, ss), stubs.patched(*patches):
                return m.solve_stochast(T, 2, parallel=False, exact=exact, full_output=True)
        A = run("g")
        B = run("g")
        c.reachable("two runs completed")
        if fixed_tau:
            c.prove(m.pre_tau is not None and close(m.pre_tau, ptau, c), "the fixed leap size set on the model is still in force after the runs")
        c.prove(same(A, B, c), "same seed (same global stream) => identical states, counts and times")
        c.prove(len(A[0]) == 2, "one path per iteration")
        # every iteration is a fresh walk of the same model: it starts at the initial state and time (nothing carried
        # over from the previous iteration or the previous call)
        x0_list = [v for v in x0]
        for run_ in (A, B):
            for k_ in range(len(run_[0])):
                c.prove(all_close(list(run_[0][k_][0]), x0_list, c) and close(run_[2][k_][0], t0, c),
                        "iteration %d starts at the initial state and time" % k_)
        if witness:
            C_ = run("h")
            fa, fc = flat(A[2]), flat(C_[2])
            if len(fa) == len(fc) and len(fa) > 2:
                c.witness(disj([~(a == b) if isinstance(a == b, SymBool) else (a != b) for a, b in zip(fa, fc)]),
                          "a different stream can change the output")
    return Unit("C16.stochast[%s,exact=%s,K=%d%s]" % (spec.name, exact, K, ",fixed_tau" if fixed_tau else ""), h,
                bounds={"states": S, "events": E, "iterations": 2, "unwind_steps_total": K, "x0": "integers 0..4"},
                program=spec.describe(), max_paths=8000)


def param_unit(form, entry, iters=2):
    """deterministic simulation with randomly drawn parameters"""
    from pygom import SimulateOde, Transition, Event
    import scipy.stats
    from scipy.stats._distn_infrastructure import rv_frozen
    from pygom.utilR import distn

    def h(c):
        from .. import models
        m = models.sir2()
        shape = c.real("shape", lo=0, lo_strict=True)
        rate = c.real("rate", lo=0, lo_strict=True)
        g = c.real("g", lo=0, lo_strict=True)
        x0 = arr(c, [c.real("x%d" % i, lo=0) for i in range(2)])
        t0 = c.real("t0")
        t1 = c.real("t1")
        t2 = c.real("t2")
        c.assume(t1 > t0)
        c.assume(t2 > t1)
        FreshEntropy.count = 0
        ent = FreshEntropy(c)

        current = {}

        class GlobalGenerator(object):
            """what a frozen scipy distribution holds as its generator: a REFERENCE to numpy's global RandomState
            singleton (so np.random.seed governs its draws).  A deep copy of it is a detached snapshot: it keeps
            its own position and no longer follows the global generator."""

            def gamma(self_, *a, **k):
                return current["stream"].gamma(*a, **k)

            def __deepcopy__(self_, memo):
                st_ = current["stream"]
                snap = st_.__class__(c, st_.tag + "!detached")
                snap.n = st_.n
                return snap

        def frozen(*a, **k):
            fd = scipy.stats.gamma(*a, **k)
            fd.dist._random_state = GlobalGenerator()
            return fd

        def run(tag):
            stream = make_stream(c, tag)
            current["stream"] = stream

            def frozen_rvs(self_, size=None, random_state=None):
                n = 1 if size is None else int(size)
                return self_.dist._random_state.gamma(1.0, scale=1.0, size=n)
            extra = []
            if form == "tuple_beta":
                # scipy.stats samplers draw from numpy's global generator unless they are handed one of their own;
                # np.random.default_rng() without a seed is a fresh entropy source
                class _Beta(object):
                    @staticmethod
                    def rvs(a_, b_, size=None, random_state=None):
                        src = stream if random_state is None else random_state
                        return src.uniform(0, 1, size=size)

                class _St(object):
                    beta = _Beta()
                extra = [(distn, "st", _St()), (np.random, "default_rng", ent.RandomState)]
            with global_rng(stream), stubs.patched((np.random, "RandomState", ent.RandomState), (rv_frozen, "rvs", frozen_rvs), *extra):
                if form == "tuple_beta":
                    # a sampler of the helper module that does not document seeding, wrapped to return one number
                    def beta1(n_, a_, b_):
                        return np.asarray(distn.rbeta(n_, a_, b_), dtype=object).ravel()[0]
                    m.parameters = {"b": (beta1, (shape, rate)), "g": g}
                elif form == "tuple":
                    m.parameters = {"b": (distn.rgamma, (shape, rate)), "g": g}
                elif form == "tuple_kwargs":
                    m.parameters = {"b": (distn.rgamma, {"shape": shape, "rate": rate}), "g": g}
                elif form == "tuple_normal":
                    # a prior with mass on both sides of zero: the drawn value may have either sign
                    m.parameters = {"b": (distn.rnorm, (shape, rate)), "g": g}
                elif form == "frozen_then_constant":
                    pass       # configured once, before the first seeded run (see below)
                else:
                    m.parameters = {"b": frozen(2.0, scale=0.5), "g": g}
                m.initial_values = (x0, t0)
                if c.mode == "sym":
                    with stubs.integrator_stubs(c, keyed=True):
                        if entry == "solve_determ":
                            return m.solve_determ([t1, t2], iteration=iters, full_output=True)
                        return m.simulate_param([t1, t2], iters, full_output=True)
                if entry == "solve_determ":
                    return m.solve_determ([t1, t2], iteration=iters, full_output=True)
                return m.simulate_param([t1, t2], iters, full_output=True)
        if form == "frozen_then_constant":
            # set-up history BEFORE the seeded runs (its own, unrelated stream): both parameters random, then one of
            # them fixed by a later partial dict update
            setup = make_stream(c, "setup")
            current["stream"] = setup

            def frozen_rvs0(self_, size=None, random_state=None):
                return self_.dist._random_state.gamma(1.0, scale=1.0, size=1 if size is None else int(size))
            with global_rng(setup), stubs.patched((rv_frozen, "rvs", frozen_rvs0)):
                m.parameters = {"b": frozen(2.0, scale=0.5), "g": frozen(3.0, scale=0.2)}
                m.parameters = {"g": g}
        YA, LA = run("g")
        YB, LB = run("g")
        c.reachable("two runs completed")
        c.prove(same([YA, LA], [YB, LB], c), "same seed => identical mean trajectory and individual runs")
        c.prove(len(LA) == iters, "one solution per iteration")
        mean = [[zsum(LA[k][i][j] for k in range(iters)) / iters for j in range(2)] for i in range(len(LA[0]))]
        c.prove(all_close(YA, mean, c), "reported mean trajectory == mean of the individual runs returned")
        c.witness(~(LA[0][1][0] == LA[1][1][0]) if isinstance(LA[0][1][0] == LA[1][1][0], SymBool) else True,
                  "different draws within a run can give different trajectories")
    return Unit("C16.params[%s,%s%s]" % (form, entry, "" if iters == 2 else ",iterations=%d" % iters), h,
                bounds={"iterations": iters, "times": 2, "model": "S'=-bSJ, J'=bSJ-gJ with b random"}, program={"model": "sir2", "form": form},
                tol=1e-5)


class C16(Check):
    id = "C16"
    level = "other"
    explanation = ("Reproducibility is a 2-safety property: the output must be a function of numpy's global stream only.  The real "
                   "solve_stochast (exact and tau-leap, serial, 2 iterations, K steps unwound) and solve_determ / simulate_param with random "
                   "parameters (callable+args, callable+kwargs, frozen scipy distribution) are executed TWICE against the same symbolic global "
                   "stream while every other entropy source (RandomState() without seed) is a fresh unconstrained stream per call; z3 proves the "
                   "two outputs are equal terms, that Y equals the mean of the returned runs, and returns witnesses that a different stream "
                   "changes the output.  A frozen distribution holds a REFERENCE to the global generator (a deep copy of it is a detached snapshot); one "
                   "unit replays the history 'two random parameters, later one fixed by a partial update'.  Prime iteration counts (101; 1009 thorough) "
                   "make any block-wise averaging of the mean visible.  One tau-leap unit runs with a fixed leap size set on the model (symbolic pre_tau): the "
                   "setting must still be in force after the runs.  Parameter samplers include utilR.rbeta (scipy's sampler by contract: the global generator "
                   "unless it is handed one).")
    stubs = ["numpy global RNG -> symbolic stream keyed by seed", "np.random.RandomState() -> fresh unconstrained stream",
             "rv_frozen.rvs -> draws from the generator the frozen distribution holds: a reference to the global stream (scipy's default); a deep copy of it is a detached snapshot",
             "scipy integrators by contract; flows named by (f at t0, x0, t0): same ODE and initial condition => same flow",
             "adaptive tau and safety helper as uninterpreted deterministic functions"]
    assumptions = ["bit-level determinism of numpy's Mersenne twister for a given seed", "parallel (dask) runs are outside the claim"]

    def units(self, tier, seed):
        specs = {s.name: s for s in shape_specs()}
        us = [stochast_unit(specs["shape_1x2"], True, 2, witness=True),
              stochast_unit(specs["shape_2x2"], True, 3),
              stochast_unit(specs["shape_1x2"], False, 2),
              stochast_unit(specs["shape_1x2"], False, 2, fixed_tau=True),
              param_unit("tuple", "solve_determ"), param_unit("frozen", "solve_determ"),
              param_unit("tuple_kwargs", "simulate_param"), param_unit("frozen", "simulate_param"),
              param_unit("frozen_then_constant", "solve_determ"),
              # a PRIME iteration count: any block-wise / chunked averaging with block size < 101 shows
              param_unit("tuple", "simulate_param", iters=101), param_unit("frozen", "solve_determ", iters=3),
              param_unit("tuple_normal", "solve_determ"), param_unit("tuple_normal", "simulate_param", iters=3),
              param_unit("tuple_beta", "solve_determ"), param_unit("tuple_beta", "simulate_param")]
        if tier != "quick":
            us += [stochast_unit(specs["shape_2x2"], True, 4), stochast_unit(specs["shape_2x2"], False, 3),
                   stochast_unit(expr.by_name("sir"), True, 4), stochast_unit(specs["shape_3x3"], True, 3),
                   param_unit("tuple", "simulate_param"), param_unit("tuple_kwargs", "solve_determ"),
                   param_unit("frozen_then_constant", "simulate_param"),
                   param_unit("tuple", "solve_determ", iters=1009), param_unit("frozen", "simulate_param", iters=101)]
        return us


CHECK = C16()
