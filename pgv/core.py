"""Check runner: units -> exploration -> verdicts -> replay -> evidence."""
import collections
import contextlib
import fractions
import hashlib
import io
import json
import multiprocessing
import os
import re
import sys
import time
import traceback

import z3

from . import sym
from . import theory

VERIF = os.path.dirname(os.path.dirname(os.path.abspath(__file__)))
# PGV_REPO: debugging aid to aim the checks at a scratch worktree (seeded-change experiments); the registered
# commands never set it and therefore always analyse /repo itself
REPO_SRC = os.path.join(os.environ.get("PGV_REPO", "/repo"), "src/pygom")

EXIT_OK, EXIT_VIOLATION, EXIT_INCONCLUSIVE = 0, 1, 2


class Unit(object):
    """one harness instance (one bounded symbolic exploration)"""

    def __init__(self, name, fn, bounds=None, max_paths=3000, replay=None,
                 exceptions_are_violations=True, expect_reach=True, tol=1e-6,
                 verdict_timeout_ms=None, program=None, time_budget_s=None,
                 allow_aborts=False, n_programs=None, optional=False, fidelity=1, stress=None):
        self.name = name
        self.fn = fn
        self.bounds = bounds or {}
        self.max_paths = max_paths
        self.replay = replay
        self.exceptions_are_violations = exceptions_are_violations
        self.expect_reach = expect_reach
        self.tol = tol
        self.verdict_timeout_ms = verdict_timeout_ms
        self.program = program            # description of the model definition, if any
        self.time_budget_s = time_budget_s
        self.allow_aborts = allow_aborts
        self.n_programs = n_programs if n_programs is not None else (1 if program is not None else 0)
        # optional = a seed-generated extra program: an obligation the solver cannot decide there (unknown, or a
        # counter-model that does not reproduce on the real code) removes that obligation from the claim -- it is
        # listed in the evidence as undecided -- instead of making the whole check inconclusive.  Reproduced
        # violations, exceptions and aborts are reported as for any other unit.
        self.optional = optional
        self.fidelity = fidelity      # number of explored paths re-run concretely on the unstubbed real code
        # float stress points (optional): {"scale": {name-prefix: factor}} -- after a validated fidelity run the same
        # concrete run is repeated with the named inputs scaled to extreme but VALID magnitudes.  The solver's claim
        # is over the reals; this probe looks for what reals cannot show (underflow/overflow of an intermediate
        # such as exp(log-density)): a failure there is a concrete failing input of the real code and is reported.
        self.stress = stress


class FunctionHits(object):
    """which pygom functions were entered (sys.setprofile on python calls in /repo/src/pygom)"""

    def __init__(self):
        self.hits = collections.Counter()

    def _prof(self, frame, event, arg):
        if event == "call":
            co = frame.f_code
            fn = co.co_filename
            if fn.startswith(REPO_SRC):
                self.hits[fn[len(REPO_SRC) + 1:] + ":" + co.co_qualname] += 1

    @contextlib.contextmanager
    def on(self):
        old = sys.getprofile()
        sys.setprofile(self._prof)
        try:
            yield
        finally:
            sys.setprofile(old)


def _jsonable(v):
    if isinstance(v, fractions.Fraction):
        return float(v)
    if isinstance(v, (bool, int, float, str)) or v is None:
        return v
    try:
        return float(v)
    except Exception:
        return str(v)


def run_unit(unit, tier):
    """returns a plain dict (picklable)"""
    t0 = time.time()
    hits = FunctionHits()
    vt = unit.verdict_timeout_ms or (20000 if tier == "quick" else 60000)
    ex = sym.Explorer(max_paths=unit.max_paths, verdict_timeout_ms=vt,
                      time_budget_s=unit.time_budget_s)
    theory_before = dict(theory.stats)
    out_buf = io.StringIO()
    with hits.on(), contextlib.redirect_stdout(out_buf):
        ex.run(unit.fn)
    s = ex.summary()
    res = {"unit": unit.name, "bounds": unit.bounds, "summary": s, "program": unit.program, "n_programs": unit.n_programs,
           "violations": [], "inconclusive": [], "functions": dict(hits.hits),
           "reach": ex.reach, "witnesses": ex.witnesses, "samples": [],
           "theory": {k: theory.stats[k] - theory_before.get(k, 0) for k in theory.stats}}

    # ---- sample: first ok path with obligations ---------------------------------
    for p in ex.paths:
        if p.obligations:
            res["samples"].append({
                "unit": unit.name, "path": p.index, "decisions": "".join("T" if d else "F" for d in p.decisions)[:80],
                "assumptions": p.assumed[:6], "obligations": [o.label for o in p.obligations][:8],
                "verdicts": [o.status for o in p.obligations][:8]})
            break

    # ---- failed obligations -> replay ----------------------------------------
    # one verdict per assertion label; up to three counter-examples (from different paths) are replayed for it, each
    # first at the solver's (non-degenerate) model and then at its large-magnitude model
    seen, tries, pending = set(), {}, {}
    for p, ob in ex.failed():
        if ob.label in seen or tries.get(ob.label, 0) >= 3:
            continue
        tries[ob.label] = tries.get(ob.label, 0) + 1
        entry = None
        for mv in [ob.model_vals] + list(getattr(ob, "alt_vals", []) or []):
            vals = {k: _jsonable(v) for k, v in (mv or {}).items()}
            rep = replay_values(unit, vals, ob.label)
            cand = {"unit": unit.name, "label": ob.label, "kind": "assertion", "path": p.index, "values": vals, "replay": rep}
            if rep["reproduced"]:
                entry = cand
                break
            pending.setdefault(ob.label, cand)
        if entry is not None:
            seen.add(ob.label)
            pending.pop(ob.label, None)
            res["violations"].append(entry)
    for lab, cand in pending.items():
        if lab not in seen:
            res["inconclusive"].append(cand)
    for p, ob in ex.unknown():
        res["inconclusive"].append({"unit": unit.name, "label": ob.label, "kind": "solver-unknown",
                                    "how": ob.how, "path": p.index})
    # ---- exceptions raised by real code ------------------------------------
    exc_seen = set()
    for p in ex.paths:
        if p.status == "exception":
            sig = "exception:%s" % type(p.exc).__name__
            if not unit.exceptions_are_violations:
                res["inconclusive"].append({"unit": unit.name, "label": sig, "kind": "exception",
                                            "msg": str(p.exc)[:300], "path": p.index})
                continue
            if sig in exc_seen:
                continue
            exc_seen.add(sig)
            vals = path_model(unit, p, ex)
            rep = replay_values(unit, vals, sig, expect_exception=type(p.exc).__name__)
            tb = "".join(traceback.format_exception(type(p.exc), p.exc, p.exc.__traceback__))[-1500:]
            res["violations" if rep["reproduced"] else "inconclusive"].append({
                "unit": unit.name, "label": sig, "kind": "exception", "msg": str(p.exc)[:300],
                "path": p.index, "values": vals, "replay": rep, "traceback": tb})
        elif p.status == "abort" and p.abort_kind not in ("unwind",) and not unit.allow_aborts:
            # the real code left the symbolic domain on this path (e.g. converted a value to a C float).  Before
            # giving up, take a model of the path condition and run the same harness concretely on the real code:
            # an assertion failing there is a reproduced violation; otherwise the path stays inconclusive.
            entry = {"unit": unit.name, "label": "abort:%s" % p.exc.why, "kind": "abort", "path": p.index}
            found = False
            if "abort-fallback" not in exc_seen:
                exc_seen.add("abort-fallback")
                try:
                    cand = list(path_models(unit, p, ex))
                    # boundary points of the input domain (unit.stress["points"]): concrete overrides of a path model
                    if cand and unit.stress:
                        for pt in unit.stress.get("points", []):
                            sv_ = dict(cand[0])
                            sv_.update(pt)
                            cand.append(sv_)
                    for vals in cand:
                        if unit.replay is not None:
                            # the unit's own replay knows how to re-position tolerances etc.; "*" = any assertion
                            with contextlib.redirect_stdout(io.StringIO()):
                                ok_, info_ = unit.replay(vals, "*")
                            if ok_:
                                lab = (info_.get("failed") or ["assertion"])[0] if isinstance(info_, dict) else "assertion"
                                res["violations"].append({"unit": unit.name, "label": lab, "kind": "assertion", "path": p.index, "values": vals,
                                                          "replay": {"reproduced": True, "how": "symbolic path aborted (%s); the unit's replay on the real code fails the assertion" % p.exc.why,
                                                                     "info": info_}})
                                found = True
                                break
                            continue
                        with contextlib.redirect_stdout(io.StringIO()):
                            cc, st_, exc_ = sym.run_concrete(unit.fn, vals, unit.tol)
                        if cc.failed:
                            res["violations"].append({"unit": unit.name, "label": cc.failed[0], "kind": "assertion", "path": p.index, "values": vals,
                                                      "replay": {"reproduced": True, "how": "symbolic path aborted (%s); concrete re-execution of the same harness on the real code fails the assertion" % p.exc.why,
                                                                 "info": {"failed": cc.failed[:10], "status": st_}}})
                            found = True
                            break
                        if st_ == "exception":
                            res["violations"].append({"unit": unit.name, "label": "exception:%s" % type(exc_).__name__, "kind": "exception", "path": p.index,
                                                      "values": vals, "msg": str(exc_)[:300],
                                                      "replay": {"reproduced": True, "how": "symbolic path aborted (%s); the real code raises on the concrete input" % p.exc.why,
                                                                 "info": {"exc": repr(exc_)[:300]}}})
                            found = True
                            break
                except BaseException:
                    pass
            if found:
                continue
            res["inconclusive"].append(entry)
    if s["budget_exhausted"]:
        res["inconclusive"].append({"unit": unit.name, "label": "path/time budget exhausted", "kind": "budget"})
    if unit.expect_reach and s["queries"] == 0:
        res["inconclusive"].append({"unit": unit.name, "label": "no obligation reached (vacuous)", "kind": "vacuous"})
    # ---- fidelity pass (Serval-style validation of harness + stubs against the unstubbed real code) ---------
    # A satisfying assignment of an explored path is turned into plain floats and the SAME harness is run in
    # concrete mode: real PyGOM on real numpy/scipy (real integrators, real scipy.stats), no proxies, no solver.
    # Every assertion evaluated there must hold numerically.  A failure means the symbolic model (a stub
    # contract, the oracle or the proxy arithmetic) disagrees with the real libraries: inconclusive, never a pass.
    res["fidelity"] = {"validated": 0, "skipped": 0, "mismatch": 0, "assertions_evaluated": 0}
    if unit.fidelity and os.environ.get("PGV_NO_FIDELITY") != "1":
        done = 0
        for p in ex.paths:
            if done >= unit.fidelity:
                break
            if p.status != "ok" or not p.obligations or any(o.status != "unsat" for o in p.obligations):
                continue
            done += 1
            try:
                vals = path_model(unit, p, ex)
                if not vals:
                    res["fidelity"]["skipped"] += 1
                    continue
                with contextlib.redirect_stdout(io.StringIO()):
                    cc, status, exc = sym.run_concrete(unit.fn, vals, unit.tol)
            except BaseException as e:
                res["fidelity"]["skipped"] += 1
                continue
            if status == "ok" and cc.passed and not cc.failed:
                res["fidelity"]["validated"] += 1
                res["fidelity"]["assertions_evaluated"] += len(cc.passed)
                if unit.stress:
                    variants = [("scale", fs) for fs in unit.stress.get("scales", [])] + [("point", pt) for pt in unit.stress.get("points", [])]
                    for vkind, factor_set in variants:
                        sv = dict(vals)
                        if vkind == "point":
                            sv.update(factor_set)          # a boundary point of the input domain
                        for k_, v_ in (vals.items() if vkind == "scale" else ()):
                            for pref, fac in factor_set.items():
                                if k_.startswith(pref) and isinstance(v_, (int, float)) and not k_.startswith(("uf", "watch")):
                                    sv[k_] = type(v_)(v_ * fac) if isinstance(v_, float) else float(v_ * fac)
                        try:
                            with contextlib.redirect_stdout(io.StringIO()):
                                cs, st_s, exc_s = sym.run_concrete(unit.fn, sv, unit.tol)
                        except BaseException:
                            continue
                        res["fidelity"]["stress_points"] = res["fidelity"].get("stress_points", 0) + 1
                        if vkind == "point" and unit.stress.get("points_only"):
                            # only the assertions named for boundary points are float-robust there (the reference
                            # derivatives of a kernel lose digits at 1e-10-sized arguments; its value does not)
                            cs.failed = [l_ for l_ in cs.failed if any(sub in l_ for sub in unit.stress["points_only"])]
                        if cs.failed:
                            res["violations"].append({"unit": unit.name, "label": cs.failed[0] + (" [float stress point]" if vkind == "scale" else " [boundary point]"), "kind": "assertion", "path": p.index,
                                                      "values": sv, "replay": {"reproduced": True, "how": "concrete run of the real code at an extreme but valid input (%s %s); outside the solver's bounded real-arithmetic claim, a failing input nonetheless" % ("inputs scaled by" if vkind == "scale" else "boundary point", factor_set),
                                                                               "info": {"failed": cs.failed[:5]}}})
                            break
            elif cc.failed:
                # One floating-point evaluation at one solver-chosen point is not a verdict: rounding near a
                # singularity or an infinite log-density can fail a tolerance although the identity is proved over
                # the reals.  The mismatch is reported in the evidence (and on stdout); it makes the check
                # inconclusive only under PGV_STRICT_FIDELITY=1, which is how the harnesses were developed.
                res["fidelity"]["mismatch"] += 1
                entry = {"unit": unit.name, "label": "fidelity: real code with floats fails %r at a point where the symbolic run proved it" % (cc.failed[:3],),
                         "kind": "fidelity-mismatch", "values": vals, "path": p.index}
                res.setdefault("fidelity_mismatches", []).append(entry)
                if os.environ.get("PGV_STRICT_FIDELITY") == "1":
                    res["inconclusive"].append(entry)
            else:
                res["fidelity"]["skipped"] += 1
    res["undecided_optional"] = []
    if unit.optional:
        keep = []
        for i in res["inconclusive"]:
            if i.get("kind") in ("solver-unknown", "assertion"):
                res["undecided_optional"].append({"unit": unit.name, "label": i.get("label"), "kind": i.get("kind")})
            else:
                keep.append(i)
        res["inconclusive"] = keep
    res["wall_s"] = round(time.time() - t0, 3)
    res["stdout_tail"] = out_buf.getvalue()[-300:]
    return res


def path_models(unit, p, ex):
    """several satisfying assignments of one path condition for the abort->concrete fallback: a non-degenerate one,
    and one biased towards NEGATIVE inputs (domain errors such as log/sqrt of a negative number hide there)"""
    out = []
    v0 = path_model(unit, p, ex)
    if v0:
        out.append(v0)
    v1 = path_model(unit, p, ex, bias="negative")
    if v1 and v1 != v0:
        out.append(v1)
    return out


def path_model(unit, p, ex, diverse=True, bias=None):
    """re-run the path to recover its pc and ask for a model"""
    holder = {}

    def h(c):
        holder["c"] = c
        return unit.fn(c)
    e2 = sym.Explorer(max_paths=1, verdict_timeout_ms=ex.verdict_timeout_ms)
    c = sym.Ctx(p.prefix + p.decisions[len(p.prefix):], e2)
    prev = sym._CTX
    sym._CTX = c
    try:
        with contextlib.redirect_stdout(io.StringIO()):
            unit.fn(c)
    except BaseException:
        pass
    finally:
        sym._CTX = prev
    # prefer a NON-DEGENERATE assignment (pairwise distinct, non-zero, non-unit values): an all-zero model would
    # make permutations, dropped terms and in-place modifications invisible to a concrete run
    v = None
    if bias == "negative":
        sv = sym._mk_solver(3000)
        sv.add(*c.pc)
        kept = []
        for z in c.symbols.values():
            if z.sort() == z3.BoolSort():
                continue
            lit = sym._real(z) < 0
            if sym.zcheck(sv, *(kept + [lit]), ms=1000) == z3.sat:
                kept.append(lit)
        vb = sym.solve(c.pc + kept, timeout_ms=3000)
        if vb.status == "sat":
            return {k: _jsonable(val) for k, val in c._model_vals(vb.model, None).items()}
        return {}
    if diverse:
        nums = [z for z in c.symbols.values() if z.sort() != z3.BoolSort()]
        reals = [sym._real(z) for z in nums]
        extra = [z3.Distinct(*reals)] if len(reals) > 1 else []
        extra += [z3.And(r != 0, r != 1, r != -1) for r in reals]
        vd = sym.solve(c.pc + extra, timeout_ms=min(5000, ex.verdict_timeout_ms))
        if vd.status == "sat":
            v = vd
    if v is None:
        v = sym.solve(c.pc, timeout_ms=ex.verdict_timeout_ms)
    if v.status != "sat":
        return {}
    return {k: _jsonable(val) for k, val in c._model_vals(v.model, None).items()}


def replay_values(unit, vals, label, expect_exception=None):
    """run the harness (or the unit's own replay) concretely, with plain floats on the real code"""
    try:
        if unit.replay is not None:
            with contextlib.redirect_stdout(io.StringIO()):
                ok, info = unit.replay(vals, label)
            return {"reproduced": bool(ok), "info": info, "how": "unit replay (real code, real libraries)"}
        with contextlib.redirect_stdout(io.StringIO()):
            c, status, exc = sym.run_concrete(unit.fn, vals, unit.tol)
        if expect_exception is not None:
            rep = status == "exception" and type(exc).__name__ == expect_exception
            return {"reproduced": rep, "info": {"status": status, "exc": repr(exc)[:300]},
                    "how": "concrete re-execution with floats"}
        rep = (label in c.failed) or status == "violation"
        other = [l for l in c.failed if l != label]
        how = "concrete re-execution with floats"
        if not rep and other and label not in c.passed:
            # the assertion that failed symbolically observes a stub-only quantity (e.g. what the integrator was
            # handed) and is not evaluated in a concrete run; the same input makes the real code fail another
            # assertion of the same harness on real numbers -- that is the reproduced violation
            rep = True
            how += " (reproduced under: %s)" % other[0]
        return {"reproduced": bool(rep), "how": how,
                "info": {"status": status, "exc": repr(exc)[:300] if exc else None,
                         "failed": c.failed[:10], "other_failed": other[:10], "missing": c.missing[:10]}}
    except BaseException as e:   # replay itself broke
        return {"reproduced": False, "how": "replay error", "info": {"error": repr(e)[:300]}}


def _run_unit_star(args):
    unit_factory, idx, tier = args
    units = unit_factory()
    return run_unit(units[idx], tier)


class Check(object):
    """subclass per property"""
    id = None
    level = "other"
    title = ""
    assumptions = []
    stubs = []
    explanation = ""

    def units(self, tier, seed):
        raise NotImplementedError

    def extra(self, tier, seed):
        """extra evidence (stub validation, fidelity, seeded faults).  returns (dict, list_of_inconclusive)"""
        return {}, []


def load_findings():
    path = os.path.join(VERIF, "known_findings.json")
    if not os.path.exists(path):
        return []
    with open(path) as f:
        return json.load(f).get("findings", [])


def match_finding(findings, pid, sig):
    for f in findings:
        if f.get("property") == pid and f.get("status") == "known" and re.search(f["match"], sig):
            return f
    return None


def run_check(check, tier, seed, jobs=None, only=None):
    t0 = time.time()
    units = check.units(tier, seed)
    if only:
        units = [u for u in units if re.search(only, u.name)]
    jobs = jobs or min(16, max(1, len(units)))
    results = []
    if jobs > 1 and len(units) > 1:
        mp = multiprocessing.get_context("fork")
        # fork workers inherit the unit list; pass indices
        global _UNITS, _TIER
        _UNITS, _TIER = units, tier
        results = _run_parallel(mp, units, tier, jobs)
    else:
        for u in units:
            results.append(run_unit(u, tier))
    extra, extra_inconcl = check.extra(tier, seed)

    findings = load_findings()
    violations, known, inconclusive = [], [], list(extra_inconcl)
    for r in results:
        for v in r["violations"]:
            sig = "%s|%s" % (v["unit"], v["label"])
            f = match_finding(findings, check.id, sig)
            if f:
                known.append((f, sig))
            else:
                violations.append(v)
        inconclusive.extend(r["inconclusive"])

    # ---- aggregate -----------------------------------------------------------
    agg = collections.Counter()
    functions = collections.Counter()
    for r in results:
        for k, v in r["summary"].items():
            if isinstance(v, (int, float)) and not isinstance(v, bool):
                agg[k] += v
        functions.update(r["functions"])
    samples = [s for r in results for s in r["samples"]][:6]
    wall = round(time.time() - t0, 2)

    # ---- replay files + output lines ---------------------------------------------
    lines = []
    rdir = os.path.join(VERIF, "replays", check.id)
    for v in violations:
        os.makedirs(rdir, exist_ok=True)
        blob = json.dumps({"property": check.id, "unit": v["unit"], "label": v["label"], "kind": v["kind"],
                           "values": v.get("values"), "replay": v.get("replay"), "msg": v.get("msg"),
                           "traceback": v.get("traceback"), "tier": tier}, indent=1, sort_keys=True, default=str)
        h = hashlib.sha1(("%s|%s" % (v["unit"], v["label"])).encode()).hexdigest()[:12]
        path = os.path.join(rdir, h + ".json")
        with open(path, "w") as f:
            f.write(blob)
        lines.append("VIOLATION property=%s replay=%s" % (check.id, path))
        v["replay_file"] = path
    kf_printed = set()
    for f, sig in known:
        key = f["match"]
        if key not in kf_printed:
            kf_printed.add(key)
            lines.append("KNOWN-FINDING: property=%s %s" % (check.id, f["what"]))

    cov = {
        "explanation": check.explanation,
        "units": len(units),
        "bounds": {r["unit"]: r["bounds"] for r in results},
        "functions_encoded": sorted(functions.keys()),
        "functions_encoded_calls": int(sum(functions.values())),
        "paths": int(agg["paths"]), "paths_ok": int(agg["paths_ok"]),
        "paths_infeasible": int(agg["paths_infeasible"]),
        "paths_cut_by_unwind": int(agg["paths_unwound"]),
        "paths_aborted": int(agg["paths_aborted"]),
        "paths_exception": int(agg["paths_exception"]),
        "queries": int(agg["queries"]), "queries_unsat": int(agg["queries_unsat"]),
        "queries_sat": int(agg["queries_sat"]), "queries_unknown": int(agg["queries_unknown"]),
        "feasibility_queries": int(agg["feasibility_queries"]),
        "solver_time_s": round(float(agg["solver_time_s"]), 3),
        "theory_side_queries": int(sum(r["theory"]["side_queries"] for r in results)),
        "theory_law_instances": int(sum(r["theory"]["instances"] for r in results)),
        "reachability_witnesses": {k: v for r in results for k, v in r["reach"].items()},
        "existential_witnesses": {k: v for r in results for k, v in r["witnesses"].items()},
        "stubs": check.stubs,
        "known_findings_matched": sorted({f["match"] for f, _ in known}),
        "inconclusive": [{"unit": i.get("unit"), "label": i.get("label"), "kind": i.get("kind")} for i in inconclusive][:20],
        "fidelity": {k: int(sum(r.get("fidelity", {}).get(k, 0) for r in results)) for k in ("validated", "skipped", "mismatch", "assertions_evaluated", "stress_points")},
        "fidelity_mismatches": [{"unit": m_["unit"], "label": m_["label"][:300], "values": m_.get("values")} for r in results for m_ in r.get("fidelity_mismatches", [])][:10],
        "undecided_on_generated_programs": [u for r in results for u in r.get("undecided_optional", [])][:40],
        "violations": [{"unit": v["unit"], "label": v["label"], "replay_file": v.get("replay_file")} for v in violations][:20],
        "per_unit": [{"unit": r["unit"], "paths": r["summary"]["paths"], "queries": r["summary"]["queries"],
                      "unsat": r["summary"]["queries_unsat"], "solver_s": r["summary"]["solver_time_s"],
                      "wall_s": r["wall_s"]} for r in results],
        "samples": samples or [{"note": "no obligations discharged"}],
        "solver": "z3 %s (python API); portfolio plain -> simplify/purify-arith/qfnra-nlsat -> reciprocal encoding" % z3.get_version_string(),
    }
    cov.update(extra)
    programs = sorted({json.dumps(r["program"], sort_keys=True) for r in results if r["program"] is not None})
    if check.level == "translation_validation":
        cov["programs"] = max(1, int(sum(r.get("n_programs", 0) for r in results)))
        cov["disagreements_checked"] = int(agg["queries"])
    elif check.level == "model_checking":
        cov["states"] = max(1, int(agg["paths"]))
        cov["transitions"] = max(1, int(agg["queries"]))
        cov["traces_validated_against_impl"] = int(sum(r.get("fidelity", {}).get("validated", 0) for r in results))
    cov["evaluations"] = max(1, int(agg["queries"]))
    cov["queries_nontrivial"] = int(agg["queries_nontrivial"])
    cov["queries_decided_by_plain_values_or_rewriter"] = int(agg["queries"]) - int(agg["queries_nontrivial"])
    cov["queries_by_ring_tactic"] = int(agg["queries_by_ring_tactic"])
    cov["distinct_nontrivial"] = int(agg["queries_nontrivial"])
    cov["rule"] = ("one evaluation = one obligation 'path condition AND assumptions AND NOT property' on one explored path "
                   "(distinct by unit, path and assertion).  distinct_nontrivial counts the obligations that needed the "
                   "ring tactic or an SMT query, i.e. excludes those already decided by plain Python values on the path "
                   "(shapes, identities of objects) or by z3's rewriter alone; measured on this run")
    ev = {"property_id": check.id, "tier": tier, "seed": int(seed), "level": check.level,
          "coverage": cov, "assumptions": check.assumptions, "wall_s": wall,
          "violations": len(violations)}
    evdir = os.environ.get("PGV_EVIDENCE_DIR") or os.path.join(VERIF, "evidence")   # (seed experiments write elsewhere)
    os.makedirs(evdir, exist_ok=True)
    with open(os.path.join(evdir, check.id + ".json"), "w") as f:
        json.dump(ev, f, indent=1, sort_keys=True, default=str)

    for l in lines:
        print(l)
    n_undec = sum(len(r.get("undecided_optional", [])) for r in results)
    s = ("%s %s: units=%d paths=%d queries=%d unsat=%d sat=%d unknown=%d solver=%.1fs wall=%.1fs "
         "violations=%d known=%d inconclusive=%d%s" % (
             check.id, tier, len(units), agg["paths"], agg["queries"], agg["queries_unsat"], agg["queries_sat"],
             agg["queries_unknown"], agg["solver_time_s"], wall, len(violations), len(kf_printed), len(inconclusive),
             (" undecided-on-generated-programs=%d (outside the claim, listed in the evidence)" % n_undec) if n_undec else ""))
    print(s)
    for r in results:
        for m_ in r.get("fidelity_mismatches", []):
            print("  note (not a verdict): %s | %s" % (m_["unit"], m_["label"][:200]))
    if violations:
        for v in violations[:5]:
            print("  violation: %s | %s | %s" % (v["unit"], v["label"], json.dumps(v.get("replay", {}).get("info"), default=str)[:300]))
        return EXIT_VIOLATION
    if inconclusive:
        for i in inconclusive[:8]:
            print("  inconclusive: %s" % json.dumps(i, default=str)[:400])
        return EXIT_INCONCLUSIVE
    return EXIT_OK


_UNITS, _TIER = None, None


def _empty_result(u, label, kind):
    return {"unit": u.name, "bounds": u.bounds, "program": u.program, "n_programs": 0,
            "summary": {"paths": 0, "queries": 0, "queries_unsat": 0, "solver_time_s": 0.0, "queries_nontrivial": 0, "queries_by_ring_tactic": 0},
            "violations": [], "functions": {}, "reach": {}, "witnesses": {}, "samples": [], "undecided_optional": [], "fidelity": {},
            "theory": {"side_queries": 0, "instances": 0, "secs": 0.0}, "wall_s": 0.0,
            "inconclusive": [{"unit": u.name, "label": label, "kind": kind}]}


def _child(i, conn):
    try:
        conn.send(_worker(i))
    except BaseException as e:      # noqa
        try:
            conn.send(_empty_result(_UNITS[i], "harness error: %r" % (e,), "harness-error"))
        except BaseException:
            pass
    finally:
        conn.close()


def _run_parallel(mp, units, tier, jobs):
    """one forked process per unit, at most `jobs` at a time, each under a HARD wall-clock limit (the unit's own
    budget stops the exploration between paths; this limit also ends a unit that is stuck inside a single call --
    a solver or library call that does not return): such a unit is reported inconclusive, never waited for"""
    hard = lambda u: (3 * u.time_budget_s + 900) if u.time_budget_s else (2400 if tier == "quick" else 7200)
    results = [None] * len(units)
    pending = list(range(len(units)))
    running = {}
    while pending or running:
        while pending and len(running) < jobs:
            i = pending.pop(0)
            a, b = mp.Pipe(duplex=False)
            pr = mp.Process(target=_child, args=(i, b))
            pr.start()
            b.close()
            running[i] = (pr, a, time.time())
        done = []
        for i, (pr, a, t_start) in running.items():
            if a.poll(0):
                try:
                    results[i] = a.recv()
                except (EOFError, OSError):
                    results[i] = _empty_result(units[i], "harness error: worker ended without a result", "harness-error")
                done.append(i)
            elif not pr.is_alive():
                results[i] = _empty_result(units[i], "harness error: worker died (exit code %r)" % pr.exitcode, "harness-error")
                done.append(i)
            elif time.time() - t_start > hard(units[i]):
                pr.terminate()
                results[i] = _empty_result(units[i], "hard wall-clock limit (%d s) reached: unit ended by the runner" % hard(units[i]), "budget")
                done.append(i)
        for i in done:
            pr, a, _ = running.pop(i)
            pr.join(5)
            if pr.is_alive():
                pr.kill()
            a.close()
        if not done:
            time.sleep(0.05)
    return results


def _worker(i):
    try:
        return run_unit(_UNITS[i], _TIER)
    except BaseException as e:
        return {"unit": _UNITS[i].name, "bounds": _UNITS[i].bounds, "program": _UNITS[i].program, "n_programs": 0,
                "summary": {"paths": 0, "queries": 0, "queries_unsat": 0, "solver_time_s": 0.0, "queries_nontrivial": 0, "queries_by_ring_tactic": 0},
                "violations": [], "functions": {}, "reach": {}, "witnesses": {}, "samples": [], "undecided_optional": [], "fidelity": {},
                "theory": {"side_queries": 0, "instances": 0, "secs": 0.0}, "wall_s": 0.0,
                "inconclusive": [{"unit": _UNITS[i].name, "label": "harness error: %r" % (e,), "kind": "harness-error",
                                  "tb": traceback.format_exc()[-1500:]}]}
