"""Environment contracts: nondeterministic stand-ins for compiled dependencies.

Every stub returns an arbitrary value of its type constrained only by the
library's documented contract.  Each is part of the claim of the property that
uses it and is validated against the real library on concrete cases by
`validate_*` (run on every check run).
"""
import contextlib
import math
import numpy as np
import z3

from . import sym
from .sym import Sym, SymBool, to_z3, _real, ctx


# --------------------------------------------------------------------------
# buffer policy of the installed scipy.integrate.ode integrators (measured)
# --------------------------------------------------------------------------
_POLICY = None


def measure_buffer_policy():
    """Two real steps per integrator: does integrate() return the same array object?"""
    global _POLICY
    if _POLICY is not None:
        return _POLICY
    import scipy.integrate
    pol = {}
    f = lambda t, y: -y
    j = lambda t, y: -np.eye(len(y))
    for name, kw in (("lsoda", {}), ("vode", {}), ("vode-bdf", {"method": "bdf"}),
                     ("dopri5", {}), ("dop853", {})):
        r = scipy.integrate.ode(f, j).set_integrator(name.split("-")[0], **kw)
        x0 = np.array([10.0, 5.0])
        r.set_initial_value(x0, 0.0)
        r.integrate(1.0)
        y1 = r.y
        v1 = y1.copy()
        r.integrate(2.0)
        y2 = r.y
        pol[name] = {"reuses_output": bool(y1 is y2 or np.shares_memory(y1, y2)),
                     "aliases_x0": bool(np.shares_memory(x0, y1)),
                     "first_overwritten": bool(not np.allclose(y1, v1))}
    _POLICY = pol
    return pol


class FlowBook(object):
    """All flows (trajectories) started during one symbolic path."""

    def __init__(self, c):
        self.c = c
        self.keyed = False       # True: flows are named by (f at the initial point, y0, t0) -- same ODE+IC => same flow
        self.flows = []          # list of dict(n, t0, y0, fns)
        self.probes = []         # (kind, t, y, value)
        self.integrators = []

    def start(self, y0, t0, key=None, fval=None):
        y0 = [v for v in np.asarray(y0, dtype=object).ravel()]
        n = len(y0)
        if self.keyed == "semantic" and fval is not None:
            # flow = uninterpreted function of (t ; f(y0), y0, t0): congruence (same right-hand side at the
            # initial point, same initial condition => same trajectory) is then decided by the solver
            fv = [v for v in np.asarray(fval, dtype=object).ravel()][:n]
            args = [_real(to_z3(v)) for v in fv + y0 + [t0]]
            k = len(self.flows)
            base = [z3.Function("XF%d_%d" % (n, i), *([sym.R] * (len(args) + 2))) for i in range(n)]
            fns = [(lambda tt, b=b: b(tt, *args)) for b in base]
            self.flows.append({"n": n, "t0": t0, "y0": y0, "fns": fns, "semantic": True})
            for i in range(n):
                self.c._assume_z(fns[i](_real(to_z3(t0))) == _real(to_z3(y0[i])), auto=True)
            return k
        if key is not None and self.keyed:
            import hashlib
            hk = hashlib.sha1((key + "|" + "|".join(to_z3(v).sexpr() for v in y0) + "|" + to_z3(t0).sexpr()).encode()).hexdigest()[:10]
            for k, fl in enumerate(self.flows):
                if fl.get("key") == hk:
                    return k
            k = len(self.flows)
            fns = [z3.Function("Xk%s_%d" % (hk, i), sym.R, sym.R) for i in range(n)]
            self.flows.append({"n": n, "t0": t0, "y0": y0, "fns": fns, "key": hk})
            for i in range(n):
                self.c._assume_z(fns[i](_real(to_z3(t0))) == _real(to_z3(y0[i])), auto=True)
            return k
        # continuation of an existing flow?
        for k, fl in enumerate(self.flows):
            if fl["n"] != n:
                continue
            same = True
            for i in range(n):
                cand = fl["fns"][i](_real(to_z3(t0)))
                yi = to_z3(y0[i]) if isinstance(y0[i], Sym) else None
                if yi is None or not z3.eq(z3.simplify(cand), z3.simplify(yi)):
                    same = False
                    break
            if same:
                return k
        k = len(self.flows)
        fns = [z3.Function("X%d_%d" % (k, i), sym.R, sym.R) for i in range(n)]
        self.flows.append({"n": n, "t0": t0, "y0": y0, "fns": fns})
        for i in range(n):
            self.c._assume_z(fns[i](_real(to_z3(t0))) == _real(to_z3(y0[i])), auto=True)
        return k

    def at(self, k, t):
        fl = self.flows[k]
        out = np.empty(fl["n"], dtype=object)
        for i in range(fl["n"]):
            term = fl["fns"][i](_real(to_z3(t)))
            self.c.uf_apps.append(term)
            out[i] = Sym(term)
        return out


def _probe_key(val):
    try:
        return "|".join(to_z3(v).sexpr() if isinstance(v, Sym) else repr(v) for v in np.asarray(val, dtype=object).ravel())
    except Exception:
        return None


class StubOde(object):
    """stand-in for scipy.integrate.ode"""
    book = None          # set by install
    policy = None

    def __init__(self, f, jac=None):
        self.f = f
        self.jac = jac
        self.f_params = ()
        self.jac_params = ()
        self._name = None
        self._kw = {}
        self._buf = None
        self._flow = None
        self.t = None
        self._ok = True
        StubOde.book.integrators.append(self)

    def set_integrator(self, name, **kw):
        self._name = name
        self._kw = kw
        return self

    def set_f_params(self, *a):
        self.f_params = a
        return self

    def set_jac_params(self, *a):
        self.jac_params = a
        return self

    def set_initial_value(self, y, t=0.0):
        self.t = t
        self._y0 = y
        self._cur = np.array(np.asarray(y, dtype=object).ravel(), dtype=object)
        # one probe of the callables at the initial point: which function, which order
        val = self.f(t, self._cur.copy(), *self.f_params)
        StubOde.book.probes.append(("f", self, t, self._cur.copy(), val))
        self._flow = StubOde.book.start(y, t, key=_probe_key(val) if StubOde.book.keyed is True else None, fval=val)
        if self.jac is not None and self._name not in ("dopri5", "dop853"):
            val = self.jac(t, self._cur.copy(), *self.jac_params)
            StubOde.book.probes.append(("jac", self, t, self._cur.copy(), val))
        return self

    def _polkey(self):
        if self._name == "vode" and self._kw.get("method") == "bdf":
            return "vode-bdf"
        return self._name

    def integrate(self, t, step=False, relax=False):
        new = StubOde.book.at(self._flow, t)
        pol = StubOde.policy.get(self._polkey(), {"reuses_output": False})
        if pol["reuses_output"] and self._buf is not None:
            self._buf[:] = new
        else:
            self._buf = new
        self._cur = self._buf
        self.t = t
        return self._cur

    @property
    def y(self):
        return self._cur

    def successful(self):
        return True

    def get_return_code(self):
        return 2


class StubOdeint(object):
    """stand-in for scipy.integrate.odeint(func, y0, t, Dfun=..., full_output=True)"""

    def __init__(self, book):
        self.book = book
        self.calls = []

    def __call__(self, func, y0, t, args=(), Dfun=None, col_deriv=0, full_output=0,
                 ml=None, mu=None, mxstep=0, tfirst=False, **kw):
        t = list(np.asarray(t, dtype=object).ravel())
        y0v = np.array(np.asarray(y0, dtype=object).ravel(), dtype=object)
        val = func(y0v.copy(), t[0], *args)
        self.book.probes.append(("f_odeint", self, t[0], y0v.copy(), val))
        k = self.book.start(y0v, t[0], key=_probe_key(val) if self.book.keyed is True else None, fval=val)
        if Dfun is not None:
            jv = Dfun(y0v.copy(), t[0], *args)
            self.book.probes.append(("jac_odeint", self, t[0], y0v.copy(), jv))
        rows = [y0v.copy()]
        for tj in t[1:]:
            rows.append(self.book.at(k, tj))
        sol = np.array(rows, dtype=object)
        self.calls.append({"t": t, "y0": y0v, "flow": k})
        if full_output:
            return sol, {"message": "stub", "nst": np.zeros(len(t) - 1)}
        return sol


def stub_eig(c, counter=[0], ascending=True):
    """fresh real eigenvalues.  ascending=True additionally orders them: PyGOM consumes
    eigenvalues only through max()/min() (symmetric functions), so this is without loss
    of generality for every assertion made and removes n! redundant path splits."""
    def eig(a):
        a = np.asarray(a, dtype=object)
        n = a.shape[0]
        k = counter[0]
        counter[0] += 1
        w = np.empty(n, dtype=object)
        for i in range(n):
            w[i] = c.real("eig%d_%d" % (k, i))
            if ascending and i > 0:
                c.assume(w[i - 1] <= w[i])
        return w, np.eye(n)
    counter[0] = 0
    return eig


@contextlib.contextmanager
def patched(*triples):
    """patched((obj, 'attr', value), ...)"""
    saved = []
    try:
        for obj, attr, val in triples:
            had = attr in getattr(obj, "__dict__", {}) or hasattr(obj, attr)
            saved.append((obj, attr, getattr(obj, attr, None), had))
            setattr(obj, attr, val)
        yield
    finally:
        for obj, attr, old, had in reversed(saved):
            if had:
                setattr(obj, attr, old)
            else:
                try:
                    delattr(obj, attr)
                except AttributeError:
                    pass


def fixed_eig(values=(-1.0,)):
    def eig(a):
        n = np.asarray(a, dtype=object).shape[0]
        return np.array([values[i % len(values)] for i in range(n)], dtype=float), np.eye(n)
    return eig


@contextlib.contextmanager
def integrator_stubs(c, ascending_eig=True, keyed=False, eig="sym"):  # noqa
    """install ode / odeint / eig stubs for one symbolic path"""
    import scipy.integrate
    import numpy.linalg
    from pygom.model import ode_utils
    book = FlowBook(c)
    book.keyed = keyed
    StubOde.book = book
    StubOde.policy = measure_buffer_policy()
    odeint = StubOdeint(book)
    book.odeint = odeint
    with patched((scipy.integrate, "ode", StubOde),
                 (scipy.integrate, "odeint", odeint),
                 (np.linalg, "eig", stub_eig(c, ascending=ascending_eig) if eig == "sym" else fixed_eig())):
        yield book


# --------------------------------------------------------------------------
# random streams
# --------------------------------------------------------------------------
class Stream(object):
    """a symbolic random stream: the k-th draw of each kind is a named symbol"""

    def __init__(self, c, tag):
        self.c = c
        self.tag = tag
        self.n = 0
        self.log = []

    def _next(self, kind):
        k = self.n
        self.n += 1
        return "%s_%s%d" % (self.tag, kind, k)

    def get_state(self):
        return ("symbolic-stream", self.tag, self.n)

    def set_state(self, state):
        """become a copy of another symbolic stream at the position it had when get_state() was taken"""
        if isinstance(state, tuple) and state and state[0] == "symbolic-stream":
            self.tag, self.n = state[1], state[2]
        else:
            raise sym.Abort("set_state with a concrete generator state")

    def _shape(self, size, gen):
        if size is None:
            return gen()
        if isinstance(size, (int, np.integer)):
            out = np.empty(int(size), dtype=object)
            for i in range(int(size)):
                out[i] = gen()
            return out
        raise sym.Abort("stream: unsupported size %r" % (size,))

    def exponential(self, scale=1.0, size=None):
        def gen():
            nm = self._next("E")
            e = self.c.real(nm, lo=0, lo_strict=True) if self.c.mode == "sym" else self.c.real(nm, lo=0, lo_strict=True)
            self.log.append(("exponential", nm, scale))
            return scale * e
        return self._shape(size, gen)

    def poisson(self, lam=1.0, size=None):
        def gen():
            nm = self._next("P")
            v = self.c.intreal(nm, lo=0)
            self.log.append(("poisson", nm, lam))
            return v
        return self._shape(size, gen)

    def uniform(self, low=0.0, high=1.0, size=None):
        def gen():
            nm = self._next("U")
            u = self.c.real(nm, lo=0, hi=1, hi_strict=True)
            self.log.append(("uniform", nm, low, high))
            return low + (high - low) * u
        return self._shape(size, gen)

    def normal(self, loc=0.0, scale=1.0, size=None):
        def gen():
            nm = self._next("N")
            z = self.c.real(nm)
            self.log.append(("normal", nm, loc, scale))
            return loc + scale * z
        return self._shape(size, gen)

    def gamma(self, shape, scale=1.0, size=None):
        def gen():
            nm = self._next("G")
            g = self.c.real(nm, lo=0, lo_strict=True)
            self.log.append(("gamma", nm, shape, scale))
            # the draw depends on `shape` in a non-algebraic way: tag the symbol by the shape term
            return scale * g
        return self._shape(size, gen)

    def chisquare(self, df, size=None):
        def gen():
            nm = self._next("C")
            g = self.c.real(nm, lo=0, lo_strict=True)
            self.log.append(("chisquare", nm, df))
            return g
        return self._shape(size, gen)

    def binomial(self, n, p, size=None):
        def gen():
            nm = self._next("B")
            g = self.c.intreal(nm, lo=0)
            self.log.append(("binomial", nm, n, p))
            return g
        return self._shape(size, gen)


# --------------------------------------------------------------------------
# scipy.stats / scipy.special
# --------------------------------------------------------------------------
SHAPES = {"expon": [], "gamma": ["a"], "norm": [], "chi2": ["df"], "uniform": [], "beta": ["a", "b"],
          "poisson": ["mu"], "binom": ["n", "p"], "nbinom": ["n", "p"]}
DISCRETE = {"poisson", "binom", "nbinom"}


def _elementwise(fn, x):
    if isinstance(x, np.ndarray):
        out = np.empty(x.shape, dtype=object)
        for idx in np.ndindex(x.shape):
            out[idx] = fn(x[idx])
        return out
    if isinstance(x, (list, tuple)):
        return np.array([fn(v) for v in x], dtype=object)
    return fn(x)


def _bcast(args):
    """broadcast scalars/arrays in args to a common shape; returns (shape or None, getter)"""
    shape = None
    for a in args:
        if isinstance(a, np.ndarray) and a.shape != ():
            shape = a.shape
    return shape


class StatsStub(object):
    """scipy.stats stand-in: st.<dist>.<fn>(x, shapes..., loc=, scale=) -> UF_<dist>_<fn>(x, shapes..., loc, scale).
    Argument normalisation follows scipy's signatures (shapes positional or by keyword, loc=0, scale=1).
    Poisson log-pmf additionally has its closed form (validated against scipy on concrete points)."""

    def __init__(self, c, closed_forms=True, support=False):
        self.c = c
        self.calls = []
        self.closed_forms = closed_forms
        self.support = support     # True: densities carry their support (uniform in closed form, gamma > 0 iff x > 0, ...)

    def __getattr__(self, dist):
        if dist.startswith("_") or dist not in SHAPES:
            raise AttributeError(dist)
        return _Dist(self, dist)

    def term(self, dist, fn, x, params):
        """the canonical term for one scalar evaluation (used both by the stub and by the harness oracle)"""
        names = SHAPES[dist] + (["loc"] if dist in DISCRETE else ["loc", "scale"])
        vals = [params[n] for n in names]
        if self.closed_forms and dist == "poisson" and fn == "logpmf" and _is0(params["loc"]):
            mu = params["mu"]
            return x * _log(mu) - mu - _lgamma(x + 1)
        if self.support and dist == "uniform" and fn == "pdf":
            lo, sc = params["loc"], params["scale"]
            xz, loz, scz = _real(to_z3(x)), _real(to_z3(lo)), _real(to_z3(sc))
            return Sym(z3.If(z3.And(xz >= loz, xz <= loz + scz), 1 / scz, z3.RealVal(0)))
        f = self.c.uf("st_%s_%s" % (dist, fn), 1 + len(vals))
        t = f(x, *vals)
        if self.support and fn in ("pdf", "pmf") and isinstance(t, Sym):
            xz = _real(to_z3(x)) - _real(to_z3(params["loc"]))
            if dist in ("gamma", "expon", "chi2"):
                self.c._assume_z(z3.And(z3.Implies(xz > 0, t.z > 0), z3.Implies(xz < 0, t.z == 0), t.z >= 0), auto=True)
            elif dist == "norm":
                self.c._assume_z(t.z > 0, auto=True)
            elif dist == "beta":
                self.c._assume_z(z3.And(z3.Implies(z3.And(xz > 0, xz < _real(to_z3(params["scale"]))), t.z > 0),
                                        z3.Implies(z3.Or(xz < 0, xz > _real(to_z3(params["scale"]))), t.z == 0), t.z >= 0), auto=True)
            else:
                self.c._assume_z(t.z >= 0, auto=True)
        return t


def _is0(v):
    return not isinstance(v, Sym) and v == 0


def _log(v):
    return v.log() if isinstance(v, Sym) else math.log(v)


def _lgamma(v):
    return v.lgamma() if isinstance(v, Sym) else math.lgamma(v)


class _Dist(object):
    def __init__(self, st, dist):
        self.st, self.dist = st, dist

    def __getattr__(self, fn):
        if fn not in ("pdf", "logpdf", "cdf", "logcdf", "ppf", "pmf", "logpmf", "sf", "isf", "rvs"):
            raise AttributeError(fn)

        def call(x=None, *args, **kw):
            shapes = SHAPES[self.dist]
            params = {}
            args = list(args)
            for n in shapes:
                if args:
                    params[n] = args.pop(0)
                elif n in kw:
                    params[n] = kw.pop(n)
                else:
                    raise TypeError("_parse_args() missing 1 required positional argument: '%s'" % n)
            tail = ["loc"] if self.dist in DISCRETE else ["loc", "scale"]
            for n in tail:
                if args:
                    params[n] = args.pop(0)
                else:
                    params[n] = kw.pop(n, 0 if n == "loc" else 1)
            if args or [k for k in kw if k not in ("size", "random_state")]:
                raise TypeError("_parse_args() got an unexpected keyword argument %r" % (list(kw) or args))
            self.st.calls.append((self.dist, fn, x, dict(params)))
            if fn == "rvs":
                raise sym.Abort("st.%s.rvs: unseeded scipy sampler" % self.dist, kind="rvs")
            # broadcast over arrays
            arrs = [x] + list(params.values())
            shape = _bcast(arrs)
            if shape is None:
                return self.st.term(self.dist, fn, x, params)
            out = np.empty(shape, dtype=object)
            for idx in np.ndindex(shape):
                g = lambda a: a[idx] if isinstance(a, np.ndarray) and a.shape != () else a
                out[idx] = self.st.term(self.dist, fn, g(x), {k: g(v) for k, v in params.items()})
            return out
        return call


def stub_gammaln(x):
    return _elementwise(_lgamma, x)


class NumpyObjProxy(object):
    """`np` seen by one module during a symbolic run: identical to numpy except that freshly
    allocated float accumulators (zeros/ones/eye/empty) are dtype=object so that symbolic values can
    be added into them.  A dtype change only -- part of the trusted harness."""

    def __init__(self):
        self._np = np

    def __getattr__(self, k):
        return getattr(self._np, k)

    def zeros(self, shape, dtype=None, **kw):
        if dtype is None or dtype is float:
            a = np.empty(shape, dtype=object)
            a.fill(0)
            return a
        return np.zeros(shape, dtype=dtype, **kw)

    def ones(self, shape, dtype=None, **kw):
        if dtype is None or dtype is float:
            a = np.empty(shape, dtype=object)
            a.fill(1)
            return a
        return np.ones(shape, dtype=dtype, **kw)

    def eye(self, n, *a, **kw):
        e = np.eye(n, *a, **kw)
        return e.astype(int).astype(object)
