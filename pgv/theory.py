"""Ground instances of algebraic laws for the uninterpreted transcendental
functions (exp, log, sin, cos, pow, lgamma).

Each instance is added only when its side condition is *proved* by z3 from the
path condition, so every clause added is true of the real functions: the
abstraction stays sound for `unsat` answers.  A `sat` answer may be spurious and
is therefore always replayed with real floats by the caller.
"""
import itertools
import time
import z3

from .sym import UF, _mk_solver, zcheck

SIDE_TIMEOUT_MS = 1500
MAX_ATOMS = 48

stats = {"side_queries": 0, "instances": 0, "secs": 0.0}


def _collect(fmls):
    apps = {k: {} for k in UF}
    seen = set()
    names = {f.name(): k for k, f in UF.items()}

    def walk(e):
        i = e.get_id()
        if i in seen:
            return
        seen.add(i)
        if z3.is_app(e):
            nm = e.decl().name()
            if nm in names and e.decl().kind() == z3.Z3_OP_UNINTERPRETED and e.num_args() > 0:
                apps[names[nm]][i] = e
            for k in range(e.num_args()):
                walk(e.arg(k))
    for f in fmls:
        walk(f)
    return {k: list(v.values()) for k, v in apps.items()}


_VARS = {}


def _vars(e):
    """names of the uninterpreted constants below e (memoised)"""
    k = e.get_id()
    hit = _VARS.get(k)
    if hit is not None:
        return hit[1]
    acc = set()
    if z3.is_app(e):
        if e.num_args() == 0:
            if e.decl().kind() == z3.Z3_OP_UNINTERPRETED:
                acc.add(e.decl().name())
        else:
            for ch in e.children():
                acc |= _vars(ch)
    _VARS[k] = (e, frozenset(acc))
    return _VARS[k][1]


def _compatible(a, b, c=None):
    """necessary condition for an algebraic relation between the arguments: no argument
    mentions a symbol that none of the others mentions"""
    va, vb = _vars(a), _vars(b)
    if c is None:
        return va == vb
    vc = _vars(c)
    return va <= (vb | vc) and vb <= (va | vc) and vc <= (va | vb)


_SCALE = [1]


def _valid(pc, claim):
    stats["side_queries"] += 1
    ms = SIDE_TIMEOUT_MS * _SCALE[0]
    s = _mk_solver(ms)
    s.add(*pc)
    s.add(z3.Not(claim))
    return zcheck(s, ms=ms) == z3.unsat


def _numeric_relation(pc, ua, ub):
    """[('prod', c)] if pc |= ua*ub == c, [('ratio', c)] if pc |= ua == c*ub, for a positive rational constant c"""
    stats["side_queries"] += 1
    s = _mk_solver(SIDE_TIMEOUT_MS)
    s.add(*pc)
    if zcheck(s, ms=SIDE_TIMEOUT_MS) != z3.sat:
        return []
    m = s.model()
    out = []
    for kind, term in (("prod", ua * ub), ("ratio", ua / ub)):
        try:
            v = m.eval(term, model_completion=True)
            if not z3.is_rational_value(v):
                continue
            c = v.numerator_as_long() / float(v.denominator_as_long())
            if c <= 0:
                continue
            claim = (ua * ub == v) if kind == "prod" else (ua == v * ub)
            if _valid(pc, claim):
                out.append((kind, c))
                break
        except Exception:
            continue
    return out


def instantiate(fmls, timeout_ms=None, patient=False):
    """fmls = path condition + negated goal.  Returns extra axioms (list).
    patient=True: side conditions get ten times the usual budget (used for a second attempt after a `sat`
    answer: on a loaded machine a side query can time out, the law instance is then missing and the main
    query is spuriously satisfiable)"""
    _SCALE[0] = 10 if patient else 1
    try:
        return _instantiate(fmls)
    finally:
        _SCALE[0] = 1


def _instantiate(fmls):
    t0 = time.time()
    apps = _collect(fmls)
    if not any(apps.values()):
        return []
    pc = fmls[:-1]
    ax = []
    one = z3.RealVal(1)
    zero = z3.RealVal(0)

    # ---- exp ----------------------------------------------------------------
    E = apps["exp"][:MAX_ATOMS]
    for e in E:
        ax.append(e > 0)
        u = z3.simplify(e.arg(0))
        if z3.is_rational_value(u) and u.numerator_as_long() == 0:
            ax.append(e == 1)
    for a, b in itertools.permutations(E, 2):
        ua, ub = a.arg(0), b.arg(0)
        if not _compatible(ua, ub):
            continue
        for n in (-1, 2, -2, 3):
            if _valid(pc, ua == n * ub):
                if n > 0:
                    p = b
                    for _ in range(n - 1):
                        p = p * b
                    ax.append(a == p)
                else:
                    p = b
                    for _ in range(-n - 1):
                        p = p * b
                    ax.append(a * p == 1)
                break
        else:
            if a.get_id() < b.get_id() and _valid(pc, ua == ub):
                ax.append(a == b)
    if len(E) >= 3:
        for a in E:
            for b, c in itertools.combinations([x for x in E if x is not a], 2):
                if _compatible(a.arg(0), b.arg(0), c.arg(0)) and _valid(pc, a.arg(0) == b.arg(0) + c.arg(0)):
                    ax.append(a == b * c)

    # ---- log ----------------------------------------------------------------
    L = apps["log"][:MAX_ATOMS]
    for l in L:
        u = z3.simplify(l.arg(0))
        if z3.is_rational_value(u) and u.numerator_as_long() == u.denominator_as_long():
            ax.append(l == 0)
        # log(exp(v)) = v
        for e in E:
            if _valid(pc, l.arg(0) == e):
                ax.append(l == e.arg(0))
        # monotone facts that are cheap and often needed
    for a, b in itertools.combinations(L, 2):
        if not _compatible(a.arg(0), b.arg(0)):
            continue
        if _valid(pc, a.arg(0) == b.arg(0)):
            ax.append(a == b)
        elif _valid(pc, a.arg(0) * b.arg(0) == 1):
            ax.append(a == -b)
        else:
            hit = False
            for n in (2, 3):
                pa = b.arg(0)
                pb = a.arg(0)
                for _ in range(n - 1):
                    pa = pa * b.arg(0)
                    pb = pb * a.arg(0)
                if _valid(pc, a.arg(0) == pa):
                    ax.append(a == n * b)
                    hit = True
                    break
                if _valid(pc, b.arg(0) == pb):
                    ax.append(b == n * a)
                    hit = True
                    break
            if not hit:
                # arguments related through a NUMERIC constant (typed/concrete inputs fold log(c) into a float):
                # u_a * u_b = c  =>  log u_a + log u_b = log c ;  u_a = c * u_b  =>  log u_a - log u_b = log c.
                # The candidate c is read off a model of the path condition and then PROVED; log c is the float
                # value, asserted within 1e-12 (rounding of libm's log).
                for kind, cval in _numeric_relation(pc, a.arg(0), b.arg(0)):
                    import math
                    lc = math.log(cval)
                    lo, hi = z3.RealVal(repr(lc - 1e-12)), z3.RealVal(repr(lc + 1e-12))
                    t = (a + b) if kind == "prod" else (a - b)
                    ax.append(z3.And(t >= lo, t <= hi))
    if len(L) >= 3:
        for a in L:
            others = [x for x in L if x is not a]
            for b, c in itertools.combinations(others, 2):
                if _compatible(a.arg(0), b.arg(0), c.arg(0)) and _valid(pc, a.arg(0) == b.arg(0) * c.arg(0)):
                    ax.append(a == b + c)
    # exp(log(v)) = v
    for e in E:
        for l in L:
            if _valid(pc, e.arg(0) == l):
                ax.append(e == l.arg(0))

    # ---- sin / cos -------------------------------------------------------------
    S, C = apps["sin"][:MAX_ATOMS], apps["cos"][:MAX_ATOMS]
    for s in S:
        ax.append(z3.And(s >= -1, s <= 1))
    for c in C:
        ax.append(z3.And(c >= -1, c <= 1))
    for s in S:
        for c in C:
            if s.arg(0).get_id() == c.arg(0).get_id() or _valid(pc, s.arg(0) == c.arg(0)):
                ax.append(s * s + c * c == 1)
    for a, b in itertools.combinations(S, 2):
        if _valid(pc, a.arg(0) == b.arg(0)):
            ax.append(a == b)
    for a, b in itertools.combinations(C, 2):
        if _valid(pc, a.arg(0) == b.arg(0)):
            ax.append(a == b)

    # ---- pow -----------------------------------------------------------------
    P = apps["pow"][:MAX_ATOMS]
    for p in P:
        if _valid(pc, p.arg(0) > 0):
            ax.append(p > 0)
    for a, b in itertools.combinations(P, 2):
        if _valid(pc, z3.And(a.arg(0) == b.arg(0), a.arg(1) == b.arg(1))):
            ax.append(a == b)

    # ---- lgamma ----------------------------------------------------------------
    G = apps["lgamma"][:MAX_ATOMS]
    for a, b in itertools.combinations(G, 2):
        if _valid(pc, a.arg(0) == b.arg(0)):
            ax.append(a == b)
    for g in G:
        u = z3.simplify(g.arg(0))
        if z3.is_rational_value(u) and u.denominator_as_long() == 1 and u.numerator_as_long() in (1, 2):
            ax.append(g == 0)

    stats["instances"] += len(ax)
    stats["secs"] += time.time() - t0
    return ax
