"""Helpers to build real PyGOM models for the harnesses (no oracle logic here)."""
import warnings

warnings.filterwarnings("ignore")

import numpy as np

from pygom import SimulateOde, Transition, TransitionType, Event   # noqa
from pygom.model import ode_utils


def lam(model):
    """use PyGOM's own lambdify back-end (its fall-back path) instead of Cython autowrap"""
    model._SC = ode_utils.compileCode(backend="lambda")
    return model


def sir2(param_names=("b", "g")):
    """2 states S,J ; infection S->J at b*S*J ; removal (death) of J at g*J"""
    b, g = param_names
    m = SimulateOde(state=["S", "J"], param=[b, g],
                    event=[Event(rate="%s*S*J" % b, transition_list=[Transition(origin="S", destination="J", transition_type="T")]),
                           Event(rate="%s*J" % g, transition_list=[Transition(origin="J", transition_type="D")])])
    return lam(m)


def sir3():
    """S,J,R with beta,gamma ; no name 'I' (C macro)"""
    m = SimulateOde(state=["S", "J", "R"], param=["beta", "gamma"],
                    event=[Event(rate="beta*S*J", transition_list=[Transition(origin="S", destination="J", transition_type="T")]),
                           Event(rate="gamma*J", transition_list=[Transition(origin="J", destination="R", transition_type="T")])])
    return lam(m)


_CACHE = {}


def cached(name, *args):
    """one model object per process and name: compiled closures are reused across paths
    (every path re-binds parameters / initial values before use)"""
    key = (name,) + args
    from . import sym
    if sym.CONCRETE_RUN:
        return globals()[name](*args)   # replays / fidelity runs: a fresh object
    if key not in _CACHE:
        _CACHE[key] = globals()[name](*args)
    return _CACHE[key]
