"""Ring-normalisation tactic for rational-function identities (a pre-solver stage of the verdict portfolio).

Goal shape:  pc  |=  lhs == rhs   where lhs, rhs are built from + - * / integer powers over "atoms"
(variables, uninterpreted applications).  Both sides are brought to  numerator / {denominator factors}
over z3 terms, cross-multiplied, and the difference is handed to z3's rewriter in sum-of-monomials mode
(`simplify(som=True)`), which is a canonical form for polynomials: the identity holds iff it rewrites to 0.
Arguments of uninterpreted applications are canonicalised the same way (so `exp(-(a+b)*x)` and
`exp(-a*x - b*x)` are the same atom); `exp` of a sum is split into a product of `exp` of monomials with
integer multiples pulled out as powers (sympy merges exp(u)*exp(u) into exp(2u)); `cos`/`sin` arguments get a
positive leading sign.  Soundness needs every denominator to be non-zero: each one must occur as a
`d != 0` literal in the path condition (which is how the executor records divisions), otherwise the tactic
declines.  A "declined"/"not zero" outcome is NOT a verdict -- the query then goes to the SMT portfolio.
"""
import z3

_SOM = dict(som=True, expand_power=True, som_blowup=1000000)


class Decline(Exception):
    pass


class Frac(object):
    """num / prod(factor**power); factors keyed by ast id of their canonical term"""
    __slots__ = ("num", "den")

    def __init__(self, num, den=None):
        self.num = num
        self.den = den or {}


def _is_num(e):
    return z3.is_rational_value(e) or z3.is_int_value(e)


def _one():
    return z3.RealVal(1)


def _den_term(den, skip=None):
    t = None
    for k, (f, p) in den.items():
        pw = p - (skip.get(k, (None, 0))[1] if skip else 0)
        for _ in range(pw):
            t = f if t is None else t * f
    return t


def _lcm(d1, d2):
    out = dict(d1)
    for k, (f, p) in d2.items():
        if k in out:
            out[k] = (f, max(out[k][1], p))
        else:
            out[k] = (f, p)
    return out


def _scale_to(fr, den):
    """numerator of fr over the common denominator den (den is a multiple of fr.den)"""
    extra = None
    for k, (f, p) in den.items():
        have = fr.den.get(k, (None, 0))[1]
        for _ in range(p - have):
            extra = f if extra is None else extra * f
    return fr.num if extra is None else fr.num * extra


def _real(e):
    return z3.ToReal(e) if e.sort() == z3.IntSort() else e


class Normalizer(object):
    def __init__(self, max_nodes=200000):
        self.memo = {}
        self.dens = {}          # ast id -> original denominator term (for the side condition)
        self.nodes = 0
        self.max_nodes = max_nodes
        self.classes = {}       # function name -> [(argument Fracs, representative atom term)]

    # -- canonical polynomial / rational forms -------------------------------------
    def canon_poly(self, e):
        return z3.simplify(e, **_SOM)

    def canon_frac_term(self, fr):
        n = self.canon_poly(fr.num)
        if not fr.den:
            return n
        d = self.canon_poly(_den_term(fr.den))
        return n / d

    def add_factors(self, den, term, power=1):
        """multiply the denominator multiset by `term` (split products, fold numerals into a returned coefficient)"""
        coef = z3.RealVal(1)
        stack = [(term, power)]
        while stack:
            t, p = stack.pop()
            if _is_num(t):
                for _ in range(p):
                    coef = coef * t
                continue
            if z3.is_app(t) and t.decl().kind() == z3.Z3_OP_MUL:
                for ch in t.children():
                    stack.append((ch, p))
                continue
            if z3.is_app(t) and t.decl().kind() == z3.Z3_OP_POWER and _is_num(t.arg(1)) and z3.is_int_value(z3.simplify(t.arg(1))):
                stack.append((t.arg(0), p * z3.simplify(t.arg(1)).as_long()))
                continue
            if z3.is_app(t) and t.decl().kind() == z3.Z3_OP_UMINUS:
                coef = -coef
                stack.append((t.arg(0), p))
                continue
            k = t.get_id()
            if k in den:
                den[k] = (t, den[k][1] + p)
            else:
                den[k] = (t, p)
        return z3.simplify(coef)

    def norm(self, e):
        k = e.get_id()
        hit = self.memo.get(k)
        if hit is not None:
            return hit[1]
        self.nodes += 1
        if self.nodes > self.max_nodes:
            raise Decline("too many nodes")
        out = self._norm(e)
        self.memo[k] = (e, out)
        return out

    def _norm(self, e):
        if _is_num(e):
            return Frac(_real(e) if e.sort() == z3.IntSort() else e)
        if not z3.is_app(e):
            raise Decline("non-application")
        kind = e.decl().kind()
        ch = e.children()
        if kind == z3.Z3_OP_TO_REAL:
            inner = ch[0]
            if z3.is_app(inner) and inner.num_args() == 0:
                return Frac(e)
            raise Decline("to_real of a compound integer term")
        if kind == z3.Z3_OP_UNINTERPRETED:
            if not ch:
                return Frac(e)
            return self.atom(e)
        if kind == z3.Z3_OP_ADD or kind == z3.Z3_OP_SUB:
            parts = [self.norm(c) for c in ch]
            den = {}
            for p in parts:
                den = _lcm(den, p.den)
            nums = [_scale_to(p, den) for p in parts]
            if kind == z3.Z3_OP_ADD:
                n = nums[0]
                for x in nums[1:]:
                    n = n + x
            else:
                n = nums[0]
                for x in nums[1:]:
                    n = n - x
            return Frac(n, den)
        if kind == z3.Z3_OP_UMINUS:
            p = self.norm(ch[0])
            return Frac(-p.num, dict(p.den))
        if kind == z3.Z3_OP_MUL:
            parts = [self.norm(c) for c in ch]
            n = parts[0].num
            den = dict(parts[0].den)
            for p in parts[1:]:
                n = n * p.num
                for k, (f, pw) in p.den.items():
                    den[k] = (f, den[k][1] + pw) if k in den else (f, pw)
            return Frac(n, den)
        if kind == z3.Z3_OP_DIV:
            a, b = self.norm(ch[0]), self.norm(ch[1])
            if not _is_num(ch[1]):
                self.dens[ch[1].get_id()] = ch[1]
            # a/b = (a.num * b.den) / (a.den * b.num)
            den = dict(a.den)
            bn = self.canon_poly(b.num)
            if _is_num(bn):
                if z3.is_true(z3.simplify(bn == 0)):
                    raise Decline("division by zero literal")
                coef = bn
            else:
                coef = self.add_factors(den, bn)
            n = a.num
            bd = _den_term(b.den)
            if bd is not None:
                n = n * bd
            n = n / coef if not z3.is_true(z3.simplify(coef == 1)) else n
            return Frac(n, den)
        if kind == z3.Z3_OP_POWER:
            ex = z3.simplify(ch[1])
            if z3.is_int_value(ex) or (z3.is_rational_value(ex) and ex.denominator_as_long() == 1):
                nexp = ex.as_long() if z3.is_int_value(ex) else ex.numerator_as_long()
                base = self.norm(ch[0])
                if nexp == 0:
                    return Frac(_one())
                if abs(nexp) > 16:
                    raise Decline("large power")
                if nexp > 0:
                    n = base.num
                    for _ in range(nexp - 1):
                        n = n * base.num
                    return Frac(n, {k: (f, p * nexp) for k, (f, p) in base.den.items()})
                raise Decline("negative power")
            raise Decline("non-integer power")
        if kind == z3.Z3_OP_ITE:
            return Frac(e)
        raise Decline("operator %s" % e.decl().name())

    # -- atoms --------------------------------------------------------------------------
    # z3's sum-of-monomials form is canonical only up to the order of the summands, so two arguments are
    # identified SEMANTICALLY: A ~ B iff the cross-multiplied difference rewrites to 0.
    def same(self, a, b, negate=False):
        den = _lcm(a.den, b.den)
        na, nb = _scale_to(a, den), _scale_to(b, den)
        r = z3.simplify((na + nb) if negate else (na - nb), **_SOM)
        return _is_num(r) and z3.is_true(z3.simplify(r == 0))

    def classify(self, name, args):
        """-> (representative atom term, sign) ; sign = -1 when args == -(representative args) (1-ary only)"""
        cl = self.classes.setdefault(name, [])
        for rargs, rterm in cl:
            if len(rargs) != len(args):
                continue
            if all(self.same(a, b) for a, b in zip(args, rargs)):
                return rterm, 1
            if len(args) == 1 and name in ("exp", "cos", "sin") and self.same(args[0], rargs[0], negate=True):
                return rterm, -1
        return None, 0

    def atom(self, e):
        f = e.decl()
        name = f.name()
        args = [self.norm(a) for a in e.children()]
        if name == "exp" and len(args) == 1 and not args[0].den:
            return self.exp_atom(f, args[0])
        return self.generic_atom(f, args)

    def generic_atom(self, f, args):
        name = f.name()
        rterm, sign = self.classify(name, args)
        if rterm is None:
            rterm = f(*[self.canon_frac_term(a) for a in args])
            self.classes[name].append((args, rterm))
            sign = 1
        if sign == 1 or name == "cos":
            return Frac(rterm)
        if name == "sin":
            return Frac(-rterm)
        return Frac(_one(), {rterm.get_id(): (rterm, 1)})     # exp(-A) = 1/exp(A)

    def monomials(self, poly):
        """canonical polynomial -> list of (coef numeral, monomial term or None)"""
        p = self.canon_poly(poly)
        terms = p.children() if (z3.is_app(p) and p.decl().kind() == z3.Z3_OP_ADD) else [p]
        out = []
        for t in terms:
            if _is_num(t):
                out.append((t, None))
            elif z3.is_app(t) and t.decl().kind() == z3.Z3_OP_MUL and _is_num(t.arg(0)):
                rest = t.children()[1:]
                m = rest[0]
                for r in rest[1:]:
                    m = m * r
                out.append((t.arg(0), m))
            else:
                out.append((z3.RealVal(1), t))
        return out

    def exp_atom(self, f, arg):
        """exp(sum_i c_i m_i) = prod_i exp(m_i)^{c_i} for integer c_i (negative -> denominator);
        non-integer coefficients keep exp(|c| m_i)^(sign)"""
        num = None
        den = {}
        for c, m in self.monomials(arg.num):
            c = z3.simplify(c)
            if z3.is_true(z3.simplify(c == 0)):
                continue
            neg = z3.is_true(z3.simplify(c < 0))
            ca = z3.simplify(-c) if neg else c
            if m is None:
                base, reps = Frac(ca), 1
            elif z3.is_rational_value(ca) and ca.denominator_as_long() == 1 and ca.numerator_as_long() <= 12:
                base, reps = Frac(m), ca.numerator_as_long()
            else:
                base, reps = Frac(ca * m), 1
            fr = self.generic_atom(f, [base])
            # fr is either atom or 1/atom
            if fr.den:
                a = list(fr.den.values())[0][0]
                neg = not neg
            else:
                a = fr.num
            if neg:
                k = a.get_id()
                den[k] = (a, den[k][1] + reps) if k in den else (a, reps)
            else:
                for _ in range(reps):
                    num = a if num is None else num * a
        return Frac(num if num is not None else _one(), den)


def nonzero_literals(pc):
    """ids of terms d for which `d != 0` (in the simplifier's form) is a conjunct of the path condition"""
    ids = set()
    for lit in pc:
        ids.add(lit.get_id())
    return ids


def prove_equal(lhs, rhs, pc, stats=None):
    """True iff the tactic shows lhs == rhs as rational functions with all denominators known non-zero."""
    try:
        nz = Normalizer()
        a, b = nz.norm(lhs), nz.norm(rhs)
        # side condition: every denominator seen is asserted non-zero in pc
        have = nonzero_literals(pc)
        for d in nz.dens.values():
            lit = z3.simplify(d != 0)
            if z3.is_true(lit):
                continue
            if lit.get_id() not in have:
                raise Decline("denominator without a non-zero literal in the path condition")
        den = _lcm(a.den, b.den)
        diff = _scale_to(a, den) - _scale_to(b, den)
        r = z3.simplify(diff, **_SOM)
        return _is_num(r) and z3.is_true(z3.simplify(r == 0))
    except Decline:
        return False
    except z3.Z3Exception:
        return False
