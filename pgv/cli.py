import argparse
import importlib
import json
import os
import sys
import warnings

warnings.filterwarnings("ignore")


def get_check(pid):
    mod = importlib.import_module("pgv.checks.%s" % pid.lower())
    return mod.CHECK


def main(argv=None):
    ap = argparse.ArgumentParser(prog="pgv")
    sub = ap.add_subparsers(dest="cmd")
    c = sub.add_parser("check")
    c.add_argument("pid")
    c.add_argument("--tier", default=os.environ.get("VERIF_TIER", "quick"), choices=["quick", "thorough"])
    c.add_argument("--jobs", type=int, default=None)
    c.add_argument("--only", default=None, help="regex on unit names (debugging)")
    r = sub.add_parser("replay")
    r.add_argument("path")
    a = ap.parse_args(argv)
    seed = int(os.environ.get("VERIF_SEED", "0") or 0)
    if a.cmd == "check":
        from pgv import core
        chk = get_check(a.pid)
        rc = core.run_check(chk, a.tier, seed, jobs=a.jobs, only=a.only)
        sys.exit(rc)
    elif a.cmd == "replay":
        from pgv import core
        with open(a.path) as f:
            rec = json.load(f)
        chk = get_check(rec["property"])
        units = [u for u in chk.units(rec.get("tier", "thorough"), seed) if u.name == rec["unit"]]
        if not units:
            units = [u for u in chk.units("thorough", seed) if u.name == rec["unit"]]
        if not units:
            print("unit %s not found" % rec["unit"])
            sys.exit(2)
        exp = rec["label"].split(":", 1)[1] if rec.get("kind") == "exception" else None
        rep = core.replay_values(units[0], rec["values"] or {}, rec["label"], expect_exception=exp)
        print(json.dumps(rep, indent=1, default=str))
        if rep["reproduced"]:
            print("VIOLATION property=%s replay=%s" % (rec["property"], a.path))
            sys.exit(1)
        print("not reproduced on the current tree")
        sys.exit(0)
    else:
        ap.print_help()
        sys.exit(2)


if __name__ == "__main__":
    main()
