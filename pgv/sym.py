"""pgsx -- proxy symbolic executor over z3.

Real PyGOM functions are executed on `Sym` numbers (wrapping z3 terms) held in
numpy dtype=object arrays.  `SymBool.__bool__` is the only forking point; the
explorer re-executes the harness per decision prefix (DFS), checks every
alternative for feasibility before scheduling it, and discharges every
`ctx.prove` with a z3 validity query under the current path condition.

Nothing here knows about PyGOM.
"""
import math
import numbers
import time
import fractions
import itertools
import numpy as np
import z3

Z3_FEAS_TIMEOUT_MS = 5000
Z3_VERDICT_TIMEOUT_MS = 20000


class Abort(BaseException):
    """A path cannot be followed symbolically (concretisation, unwind bound)."""

    def __init__(self, why, kind="abort"):
        super().__init__(why)
        self.why = why
        self.kind = kind


class Infeasible(BaseException):
    """assume() made the path condition unsatisfiable."""


class PathViolation(BaseException):
    """raised by ctx.prove(..., fatal=True) after recording a violation"""


_CTX = None


def ctx():
    if _CTX is None:
        raise RuntimeError("no active symbolic context")
    return _CTX


# --------------------------------------------------------------------------
# uninterpreted transcendental functions
# --------------------------------------------------------------------------
R = z3.RealSort()
UF = {
    "exp": z3.Function("exp", R, R),
    "log": z3.Function("log", R, R),
    "sin": z3.Function("sin", R, R),
    "cos": z3.Function("cos", R, R),
    "lgamma": z3.Function("lgamma", R, R),
    "pow": z3.Function("pow", R, R, R),
}
CONCRETE_UF = {
    "exp": math.exp, "log": math.log, "sin": math.sin, "cos": math.cos,
    "lgamma": math.lgamma, "pow": math.pow,
}


def to_z3(v):
    """python/numpy number or Sym -> z3 arithmetic term"""
    if isinstance(v, np.ndarray) and v.shape == ():
        v = v.item()
    if isinstance(v, Sym):
        return v.z
    if isinstance(v, SymBool):
        return z3.If(v.z, z3.RealVal(1), z3.RealVal(0))
    if isinstance(v, (bool, np.bool_)):
        return z3.RealVal(1 if v else 0)
    if isinstance(v, (int, np.integer)):
        return z3.RealVal(int(v))
    if isinstance(v, fractions.Fraction):
        return z3.RealVal(str(v))
    if isinstance(v, (float, np.floating)):
        f = float(v)
        if math.isnan(f) or math.isinf(f):
            raise Abort("non-finite constant %r meets a symbolic value" % f)
        fr = fractions.Fraction(f)
        # a double that is the rounding of a simple rational (1/3, 0.1, 3.14159) is read as that rational: generated
        # code prints sympy's exact Rational(1, 3) as the Python expression 1/3; the difference is one ulp, i.e.
        # rounding-level, which every claim already excludes
        snap = fr.limit_denominator(10 ** 6)
        if snap != fr and abs(float(snap) - f) <= 4e-16 * max(1.0, abs(f)):
            fr = snap
        return z3.RealVal("%d/%d" % (fr.numerator, fr.denominator))
    if z3.is_expr(v):
        return v
    raise TypeError("cannot lift %r (%s) to z3" % (v, type(v)))


def _is_num(v):
    return isinstance(v, (int, float, np.integer, np.floating, fractions.Fraction,
                          bool, np.bool_)) and not isinstance(v, Sym)


class SymBool(object):
    """z3 Bool proxy.  bool() forks."""
    __slots__ = ("z",)
    __hash__ = None

    def __init__(self, z):
        self.z = z

    def __bool__(self):
        return ctx().decide(self.z)

    def __and__(self, o):
        return SymBool(z3.And(self.z, _b(o)))
    __rand__ = __and__

    def __or__(self, o):
        return SymBool(z3.Or(self.z, _b(o)))
    __ror__ = __or__

    def __invert__(self):
        return SymBool(z3.Not(self.z))

    def __eq__(self, o):
        return SymBool(self.z == _b(o))

    def __ne__(self, o):
        return SymBool(self.z != _b(o))

    def __repr__(self):
        return "SymBool(%s)" % self.z


def _b(o):
    if isinstance(o, SymBool):
        return o.z
    if isinstance(o, (bool, np.bool_)):
        return z3.BoolVal(bool(o))
    if z3.is_expr(o):
        return o
    raise TypeError("cannot lift %r to z3 Bool" % (o,))


def _cmp_inf(op, a_is_sym_left, other):
    """compare a finite real with +-inf concretely"""
    f = float(other)
    if math.isnan(f):
        return op in ("ne",)
    pos = f > 0
    # a (finite) OP inf
    table = {"lt": pos, "le": pos, "gt": not pos, "ge": not pos, "eq": False, "ne": True}
    return table[op]


class Sym(numbers.Real):
    """z3 Real/Int proxy behaving like a numpy scalar."""
    __slots__ = ("z",)

    def __hash__(self):
        # STRUCTURAL hash (z3 term hash): lets real code use symbolic values as dictionary keys / cache keys
        # (e.g. a memo keyed by the state).  Equal terms collide and compare equal; different terms that happen
        # to be equal in value are treated as different keys -- an under-approximation of cache hits, recorded
        # here as a limitation: a violation found on such a path is replayed concretely like any other.
        return self.z.hash()

    def __init__(self, z):
        self.z = z

    # -- numpy-scalar mimicry ------------------------------------------------
    def tolist(self):
        return self

    def item(self):
        return self

    def copy(self):
        return self

    def __copy__(self):
        return self

    def __deepcopy__(self, memo):
        return self

    def ravel(self):
        return np.array([self], dtype=object)

    @property
    def real(self):
        return self

    @property
    def imag(self):
        return 0

    def conjugate(self):
        return self

    @property
    def shape(self):
        return ()

    @property
    def size(self):
        return 1

    ndim = 0

    def __repr__(self):
        s = str(self.z)
        return "Sym(%s)" % (s if len(s) < 200 else s[:200] + "...")

    # -- forbidden concretisations ---------------------------------------------
    def __float__(self):
        raise Abort("float() of a symbolic value")

    def __int__(self):
        raise Abort("int() of a symbolic value")

    def __index__(self):
        raise Abort("index() of a symbolic value")

    def __trunc__(self):
        raise Abort("trunc() of a symbolic value")

    def __floor__(self):
        raise Abort("floor() of a symbolic value")

    def __ceil__(self):
        raise Abort("ceil() of a symbolic value")

    def __round__(self, n=None):
        raise Abort("round() of a symbolic value")

    def __complex__(self):
        raise Abort("complex() of a symbolic value")

    def __bool__(self):
        return ctx().decide(self.z != 0)

    # -- arithmetic ---------------------------------------------------------
    def _bin(self, o, f, swap=False):
        if isinstance(o, np.ndarray):
            if o.shape == ():
                o = o.item()
            else:
                return NotImplemented
        if isinstance(o, (float, np.floating)) and (math.isinf(o) or math.isnan(o)):
            raise Abort("arithmetic with non-finite constant")
        try:
            oz = to_z3(o)
        except TypeError:
            return NotImplemented
        return Sym(f(oz, self.z) if swap else f(self.z, oz))

    def __add__(self, o):
        if _is_num(o) and o == 0:
            return self
        return self._bin(o, lambda a, b: a + b)

    def __radd__(self, o):
        if _is_num(o) and o == 0:
            return self
        return self._bin(o, lambda a, b: a + b, True)

    def __sub__(self, o):
        if _is_num(o) and o == 0:
            return self
        return self._bin(o, lambda a, b: a - b)

    def __rsub__(self, o):
        return self._bin(o, lambda a, b: a - b, True)

    def __mul__(self, o):
        if _is_num(o):
            if o == 1:
                return self
            if o == 0:
                return Sym(z3.RealVal(0))
        return self._bin(o, lambda a, b: a * b)

    def __rmul__(self, o):
        if _is_num(o):
            if o == 1:
                return self
            if o == 0:
                return Sym(z3.RealVal(0))
        return self._bin(o, lambda a, b: a * b, True)

    def __truediv__(self, o):
        if _is_num(o):
            if o == 1:
                return self
            if o == 0:
                raise ZeroDivisionError("symbolic / 0")
            return self._bin(o, lambda a, b: a / b)
        if isinstance(o, Sym):
            ctx().nonzero(o.z)
            return Sym(_real(self.z) / _real(o.z))
        return self._bin(o, lambda a, b: a / b)

    def __rtruediv__(self, o):
        ctx().nonzero(self.z)
        if isinstance(o, np.ndarray):
            return NotImplemented
        return Sym(_real(to_z3(o)) / _real(self.z))

    def __floordiv__(self, o):
        raise Abort("floor division of a symbolic value")

    def __rfloordiv__(self, o):
        raise Abort("floor division of a symbolic value")

    def __mod__(self, o):
        # only used as np.mod(x, 1) == 0 integrality tests
        if _is_num(o) and o == 1 and self.z.sort() == z3.IntSort():
            return 0
        if _is_num(o) and o == 1:
            c = ctx()
            if c.is_integral(self.z):
                return 0
        raise Abort("mod of a symbolic value")

    def __rmod__(self, o):
        raise Abort("mod of a symbolic value")

    def __neg__(self):
        return Sym(-self.z)

    def __pos__(self):
        return self

    def __abs__(self):
        return Sym(z3.If(self.z >= 0, self.z, -self.z))

    def __pow__(self, e, mod=None):
        if isinstance(e, (float, np.floating)) and float(e).is_integer():
            e = int(e)
        if isinstance(e, (int, np.integer)):
            e = int(e)
            if e == 0:
                return Sym(z3.RealVal(1))
            if abs(e) > 12:
                raise Abort("power %d too large to unroll" % e)
            p = self.z
            for _ in range(abs(e) - 1):
                p = p * self.z
            if e < 0:
                ctx().nonzero(self.z)
                return Sym(z3.RealVal(1) / _real(p))
            return Sym(p)
        if isinstance(e, (float, np.floating)) and float(e) == 0.5:
            return self.sqrt()
        if isinstance(e, (float, np.floating)) and float(e) == -0.5:
            return 1 / self.sqrt()
        return Sym(UF["pow"](_real(self.z), _real(to_z3(e))))

    def __rpow__(self, b):
        return Sym(UF["pow"](_real(to_z3(b)), _real(self.z)))

    # -- transcendental methods (numpy object ufuncs dispatch here) ---------------
    def exp(self):
        return Sym(UF["exp"](_real(self.z)))

    def log(self):
        ctx().positive(self.z)
        return Sym(UF["log"](_real(self.z)))

    def sin(self):
        return Sym(UF["sin"](_real(self.z)))

    def cos(self):
        return Sym(UF["cos"](_real(self.z)))

    def sqrt(self):
        return ctx().sqrt_of(self.z)

    def lgamma(self):
        return Sym(UF["lgamma"](_real(self.z)))

    # -- comparisons ----------------------------------------------------------
    def _cmp(self, o, op):
        if isinstance(o, np.ndarray):
            if o.shape == ():
                o = o.item()
            else:
                return NotImplemented
        if o is None:
            if op == "eq":
                return False
            if op == "ne":
                return True
            return NotImplemented
        if isinstance(o, (float, np.floating)) and (math.isinf(o) or math.isnan(o)):
            return _cmp_inf(op, True, o)
        try:
            oz = to_z3(o)
        except TypeError:
            return NotImplemented
        a, b = self.z, oz
        z = {"lt": lambda: a < b, "le": lambda: a <= b, "gt": lambda: a > b,
             "ge": lambda: a >= b, "eq": lambda: a == b, "ne": lambda: a != b}[op]()
        return SymBool(z)

    def __lt__(self, o):
        return self._cmp(o, "lt")

    def __le__(self, o):
        return self._cmp(o, "le")

    def __gt__(self, o):
        return self._cmp(o, "gt")

    def __ge__(self, o):
        return self._cmp(o, "ge")

    def __eq__(self, o):
        return self._cmp(o, "eq")

    def __ne__(self, o):
        return self._cmp(o, "ne")


def _real(z):
    if z.sort() == z3.IntSort():
        return z3.ToReal(z)
    return z


class SymArray(np.ndarray):
    """ndarray(dtype=object) standing for a float64 array: astype() to a float/int dtype keeps the symbolic
    values (callers convert before handing to C code) and has numpy's aliasing behaviour for an array that
    already has the requested dtype -- a copy by default, the array itself with copy=False."""

    def astype(self, dtype, *a, **k):
        if self.dtype == object and any(isinstance(v, Sym) for v in self.ravel()):
            copy = k.get("copy", a[3] if len(a) > 3 else True)
            return self if copy is False else self.copy()
        return np.ndarray.astype(self, dtype, *a, **k)

    def __array_wrap__(self, out_arr, context=None, return_scalar=False):
        if out_arr.shape == ():
            return out_arr.item()
        return np.ndarray.__array_wrap__(self, out_arr, context, return_scalar)

    def sum(self, *a, **k):
        r = np.asarray(self).sum(*a, **k)
        return r.view(SymArray) if isinstance(r, np.ndarray) and r.shape != () else (r.item() if isinstance(r, np.ndarray) else r)


def symarray(values):
    a = np.empty(len(values), dtype=object)
    for i, v in enumerate(values):
        a[i] = v
    return a.view(SymArray)


def objarray(values):
    """n-d object array from nested lists without numpy trying to iterate Syms"""
    arr = np.array(values, dtype=object)
    return arr


# --------------------------------------------------------------------------
# solver helpers
# --------------------------------------------------------------------------
def _mk_solver(timeout_ms):
    s = z3.Solver()
    s.set("timeout", int(timeout_ms))
    return s


def zcheck(s, *assumptions, ms=None):
    """solver.check with a watchdog: z3's own timeout is not honoured inside some
    nonlinear loops, so a timer thread interrupts the context shortly after it."""
    import threading
    ms = ms or Z3_FEAS_TIMEOUT_MS
    fired = []

    def _int():
        fired.append(1)
        try:
            z3.main_ctx().interrupt()
        except Exception:
            pass
    tm = threading.Timer(ms / 1000.0 + 0.5, _int)
    tm.daemon = True
    tm.start()
    try:
        try:
            r = s.check(*assumptions)
        except z3.Z3Exception:
            r = z3.unknown
    finally:
        tm.cancel()
    return r


_RECIP_EXPR = {}     # ast id -> (expr kept alive, encoded expr)
_RECIP_DEN = {}      # denominator ast id -> (den expr, encoded den, inv const)


def _recip_encode(fmls):
    """replace every distinct denominator D by a fresh inv_D with inv_D*D = 1 (memoised per sub-term)"""

    def walk(e):
        k = e.get_id()
        hit = _RECIP_EXPR.get(k)
        if hit is not None:
            return hit[1]
        if z3.is_app(e) and e.num_args() > 0:
            args = [walk(c) for c in e.children()]
            if e.decl().kind() == z3.Z3_OP_DIV and not z3.is_rational_value(e.arg(1)):
                dk = e.arg(1).get_id()
                if dk not in _RECIP_DEN:
                    _RECIP_DEN[dk] = (e.arg(1), args[1], z3.Real("inv!%d" % len(_RECIP_DEN)))
                out = args[0] * _RECIP_DEN[dk][2]
            else:
                out = e.decl()(*args)
        else:
            out = e
        _RECIP_EXPR[k] = (e, out)
        return out

    out = [walk(f) for f in fmls]
    used = set()
    for f in fmls:
        used |= _dens_below(f)
    side = [_RECIP_DEN[dk][2] * _RECIP_DEN[dk][1] == 1 for dk in sorted(used)]
    return out + side


_DENS_BELOW = {}


def _dens_below(e):
    k = e.get_id()
    hit = _DENS_BELOW.get(k)
    if hit is not None:
        return hit[1]
    acc = set()
    if z3.is_app(e) and e.num_args() > 0:
        for c in e.children():
            acc |= set(_dens_below(c))
        if e.decl().kind() == z3.Z3_OP_DIV and not z3.is_rational_value(e.arg(1)):
            acc.add(e.arg(1).get_id())
    _DENS_BELOW[k] = (e, frozenset(acc))
    return _DENS_BELOW[k][1]


class Verdict(object):
    def __init__(self, status, model=None, secs=0.0, how=""):
        self.status = status      # 'unsat' | 'sat' | 'unknown'
        self.model = model
        self.secs = secs
        self.how = how


def _has_div(fmls):
    seen = set()
    stack = list(fmls)
    while stack:
        e = stack.pop()
        i = e.get_id()
        if i in seen:
            continue
        seen.add(i)
        if z3.is_app(e):
            if e.decl().kind() == z3.Z3_OP_DIV and not z3.is_rational_value(e.arg(1)):
                return True
            stack.extend(e.children())
    return False


def _try(kind, fmls, timeout_ms):
    if kind == "plain":
        s = _mk_solver(timeout_ms)
    else:
        s = z3.Then("simplify", "purify-arith", "qfnra-nlsat").solver()
        s.set("timeout", int(timeout_ms))
    s.add(*fmls)
    r = zcheck(s, ms=timeout_ms)
    return r, (s.model() if r == z3.sat else None)


def solve(fmls, timeout_ms=Z3_VERDICT_TIMEOUT_MS, want_model=True):
    """portfolio with escalating budgets: plain(short) -> nlsat tactic -> reciprocal-variable
    encoding (plain, nlsat) -> plain(full).  First definite answer wins."""
    t0 = time.time()
    attempts = []
    fmls = list(fmls)
    stages = [("plain", fmls, min(400, timeout_ms))]
    enc = None
    for kind, f, to in stages:
        try:
            r, m = _try(kind, f, to)
        except z3.Z3Exception:
            r, m = z3.unknown, None
        attempts.append("%s:%s" % (kind, r))
        if r == z3.unsat:
            return Verdict("unsat", None, time.time() - t0, ",".join(attempts))
        if r == z3.sat:
            return Verdict("sat", m, time.time() - t0, ",".join(attempts))
    stages = []
    if _has_div(fmls):
        try:
            enc = _recip_encode(fmls)
        except z3.Z3Exception:
            enc = None
    if enc is not None:
        stages += [("plain", enc, min(2000, timeout_ms)), ("nlsat", enc, min(5000, timeout_ms))]
    stages += [("plain", fmls, min(2000, timeout_ms)), ("nlsat", fmls, min(5000, timeout_ms))]
    if enc is not None:
        stages += [("nlsat", enc, timeout_ms), ("plain", enc, timeout_ms)]
    stages += [("nlsat", fmls, timeout_ms), ("plain", fmls, timeout_ms)]
    for kind, f, to in stages:
        try:
            r, m = _try(kind, f, to)
        except z3.Z3Exception:
            attempts.append("%s:exc" % kind)
            continue
        attempts.append("%s%s:%s" % (kind, "+recip" if f is enc else "", r))
        if r == z3.unsat:
            return Verdict("unsat", None, time.time() - t0, ",".join(attempts))
        if r == z3.sat:
            return Verdict("sat", m, time.time() - t0, ",".join(attempts))
    return Verdict("unknown", None, time.time() - t0, ",".join(attempts))


def model_value(model, term):
    """evaluate a z3 arithmetic term in a model -> python float (exact Fraction when rational)"""
    v = model.eval(term, model_completion=True)
    if z3.is_rational_value(v):
        return fractions.Fraction(v.numerator_as_long(), v.denominator_as_long())
    if z3.is_algebraic_value(v):
        a = v.approx(30)
        return fractions.Fraction(a.numerator_as_long(), a.denominator_as_long())
    if z3.is_int_value(v):
        return fractions.Fraction(v.as_long())
    if z3.is_true(v):
        return True
    if z3.is_false(v):
        return False
    raise ValueError("cannot evaluate %s -> %s" % (term, v))


# --------------------------------------------------------------------------
# the per-path context
# --------------------------------------------------------------------------
class Obligation(object):
    __slots__ = ("label", "status", "secs", "how", "model_vals", "path_index", "detail", "alt_vals")

    def __init__(self, label, status, secs, how, model_vals=None, detail=None):
        self.label = label
        self.status = status
        self.secs = secs
        self.how = how
        self.model_vals = model_vals
        self.detail = detail
        self.path_index = None
        self.alt_vals = []


class Ctx(object):
    """symbolic-mode context for one path"""
    mode = "sym"

    def __init__(self, prefix, explorer):
        self.prefix = list(prefix)
        self.ex = explorer
        self.decisions = []          # list of bool
        self.alts = []               # parallel: True if the alternative is feasible (to be scheduled)
        self.pc = []                 # path condition literals + assumptions
        self.assumed = []            # assumption literals (subset of pc), for reporting
        self.auto = []               # auto side conditions (denominators, log args, sqrt)
        self.obligations = []
        self.symbols = {}            # name -> z3 const
        self.events = []             # free-form trace notes
        self._solver = _mk_solver(Z3_FEAS_TIMEOUT_MS)
        self._sqrt = {}
        self.solver_time = 0.0
        self.feas_queries = 0
        self.maybe_infeasible = False
        self.uf_apps = []

    # ---- symbols -----------------------------------------------------------
    def real(self, name, lo=None, hi=None, lo_strict=False, hi_strict=False):
        z = z3.Real(name)
        self.symbols[name] = z
        if lo is not None:
            self._assume_z(z > lo if lo_strict else z >= lo)
        if hi is not None:
            self._assume_z(z < hi if hi_strict else z <= hi)
        return Sym(z)

    def pos(self, name):
        return self.real(name, lo=0, lo_strict=True)

    def int(self, name, lo=None, hi=None):
        z = z3.Int(name)
        self.symbols[name] = z
        if lo is not None:
            self._assume_z(z >= lo)
        if hi is not None:
            self._assume_z(z <= hi)
        return Sym(z)

    def intreal(self, name, lo=None, hi=None):
        """a Real constrained to integer values (keeps sorts uniform in float-style code)"""
        zi = z3.Int(name + "!i")
        z = z3.Real(name)
        self.symbols[name] = z
        self._assume_z(z == z3.ToReal(zi))
        if lo is not None:
            self._assume_z(z >= lo)
        if hi is not None:
            self._assume_z(z <= hi)
        return Sym(z)

    def boolean(self, name):
        z = z3.Bool(name)
        self.symbols[name] = z
        return SymBool(z)

    def vec(self, name, n, **kw):
        return symarray([self.real("%s%d" % (name, i), **kw) for i in range(n)])

    def uf(self, name, arity=1):
        f = z3.Function(name, *([R] * (arity + 1)))

        def call(*args):
            zs = [_real(to_z3(a)) for a in args]
            t = f(*zs)
            self.uf_apps.append(t)
            return Sym(t)
        call.z3 = f
        return call

    def choice(self, name, n):
        """symbolic integer in range(n); returns the concrete index by forking"""
        z = z3.Int(name)
        self.symbols[name] = z
        self._assume_z(z3.And(z >= 0, z < n))
        for k in range(n - 1):
            if self.decide(z == k):
                return k
        return n - 1

    # ---- path condition -----------------------------------------------------
    def _assume_z(self, z, auto=False):
        z = z3.simplify(z)
        if z3.is_true(z):
            return
        if z3.is_false(z):
            raise Infeasible()
        self.pc.append(z)
        self._solver.add(z)
        (self.auto if auto else self.assumed).append(z)

    def assume(self, cond):
        if isinstance(cond, (bool, np.bool_)):
            if not cond:
                raise Infeasible()
            return
        z = _b(cond)
        self._assume_z(z)
        # an assumption may contradict the path: check now so that no code runs
        # under an unsatisfiable condition
        t0 = time.time()
        r = zcheck(self._solver)
        self.solver_time += time.time() - t0
        self.feas_queries += 1
        if r == z3.unsat:
            raise Infeasible()

    def nonzero(self, z):
        zs = z3.simplify(z != 0)
        if z3.is_true(zs):
            return
        self._assume_z(zs, auto=True)

    def positive(self, z):
        zs = z3.simplify(z > 0)
        if z3.is_true(zs):
            return
        self._assume_z(zs, auto=True)

    def sqrt_of(self, z):
        z = z3.simplify(_real(z))
        if z3.is_rational_value(z):
            fr = fractions.Fraction(z.numerator_as_long(), z.denominator_as_long())
            rt = fractions.Fraction(math.isqrt(fr.numerator), math.isqrt(fr.denominator))
            if rt * rt == fr:
                return Sym(z3.RealVal(str(rt)))
        k = z.get_id()
        if k not in self._sqrt:
            r = z3.Real("sqrt!%d" % len(self._sqrt))
            self._sqrt[k] = r
            self._assume_z(z >= 0, auto=True)
            self._assume_z(z3.And(r >= 0, r * r == z), auto=True)
        return Sym(self._sqrt[k])

    def is_integral(self, z):
        """pc |= z is integer-valued ?"""
        zr = _real(z)
        s = _mk_solver(2000)
        s.add(*self.pc)
        s.add(zr != z3.ToReal(z3.ToInt(zr)))
        return zcheck(s, ms=2000) == z3.unsat

    def _check(self, extra):
        t0 = time.time()
        r = zcheck(self._solver, extra, ms=1500)
        self.solver_time += time.time() - t0
        self.feas_queries += 1
        if r == z3.unknown:
            # retry non-incrementally with the portfolio
            v = solve(self.pc + [extra], timeout_ms=Z3_FEAS_TIMEOUT_MS, want_model=False)
            self.solver_time += v.secs
            if v.status == "unsat":
                return z3.unsat
            if v.status == "sat":
                return z3.sat
            self.maybe_infeasible = True
            self.ex.unknown_feasibility += 1
        return r

    def decide(self, z):
        z = z3.simplify(z)
        if z3.is_true(z):
            return True
        if z3.is_false(z):
            return False
        i = len(self.decisions)
        if i < len(self.prefix):
            val = self.prefix[i]
            lit = z if val else z3.Not(z)
            self.decisions.append(val)
            self.alts.append(False)
            self.pc.append(lit)
            self._solver.add(lit)
            return val
        if i >= self.ex.max_depth:
            raise Abort("decision depth %d exceeded" % i, kind="depth")
        rt = self._check(z)
        rf = self._check(z3.Not(z))
        if rt == z3.unsat and rf == z3.unsat:
            raise Infeasible()
        if rt == z3.unsat:
            val, alt = False, False
        elif rf == z3.unsat:
            val, alt = True, False
        else:
            val, alt = True, True
        lit = z if val else z3.Not(z)
        self.decisions.append(val)
        self.alts.append(alt)
        self.pc.append(lit)
        self._solver.add(lit)
        return val

    # ---- obligations --------------------------------------------------------
    def prove(self, cond, label, fatal=False, watch=None):
        """discharge  pc => cond.  `watch`: dict name->Sym/z3 term evaluated in a counter-model"""
        if isinstance(cond, (bool, np.bool_)):
            if cond:
                ob = Obligation(label, "unsat", 0.0, "concrete")
            else:
                # decided by plain Python values on this path: the counterexample is any model of the path
                # condition (it carries the branch/choice decisions that lead here)
                mv0 = {}
                try:
                    nums = [_real(z) for z in self.symbols.values() if z.sort() != z3.BoolSort() and z.sort() != z3.IntSort()]
                    extra = ([z3.Distinct(*nums)] if len(nums) > 1 else []) + [z3.And(r != 0, r != 1) for r in nums]
                    vm = solve(self.pc + extra, timeout_ms=3000)
                    if vm.status != "sat":
                        vm = solve(self.pc, timeout_ms=5000)
                    if vm.status == "sat":
                        mv0 = self._model_vals(vm.model, watch)
                except z3.Z3Exception:
                    pass
                ob = Obligation(label, "sat", 0.0, "concrete", mv0)
            self.obligations.append(ob)
            if fatal and not cond:
                raise PathViolation(label)
            return bool(cond)
        z = _b(cond)
        zs = z3.simplify(z)
        if z3.is_true(zs):
            self.obligations.append(Obligation(label, "unsat", 0.0, "simplify"))
            return True
        from . import theory
        conjuncts = list(z.children()) if (z3.is_and(z) and z.num_args() > 1) else [z]
        v = None
        tot = 0.0
        hows = []
        from . import ringnorm
        fmls, ax = self.pc, []
        for zc in conjuncts:
            if len(conjuncts) > 1:
                if z3.is_true(z3.simplify(zc)):
                    continue
            if z3.is_eq(zc) and zc.arg(0).sort() != z3.BoolSort() and self.ex.use_ring:
                t_r = time.time()
                ok = ringnorm.prove_equal(zc.arg(0), zc.arg(1), self.pc)
                tot += time.time() - t_r
                self.ex.ring_stats["tried"] += 1
                if ok:
                    self.ex.ring_stats["proved"] += 1
                    hows.append("ring")
                    v = Verdict("unsat", None, 0.0, "ring")
                    continue
            fmls = self.pc + [z3.Not(zc)]
            ax = theory.instantiate(fmls, self.ex.verdict_timeout_ms)
            v = solve(fmls + ax, timeout_ms=self.ex.verdict_timeout_ms)
            tot += v.secs
            hows.append(v.how)
            if v.status != "unsat" and any(theory._collect(fmls).values()):
                # second, patient attempt: the law instances depend on side queries with short time-outs
                ax2 = theory.instantiate(fmls, self.ex.verdict_timeout_ms, patient=True)
                if len(ax2) > len(ax) or v.status == "unknown":
                    v2 = solve(fmls + ax2, timeout_ms=3 * self.ex.verdict_timeout_ms)
                    tot += v2.secs
                    hows.append("patient:" + v2.how)
                    if v2.status == "unsat" or v.status == "unknown":
                        v, ax = v2, ax2
            if v.status != "unsat":
                break
        if v is None or v.status == "unsat":
            v = Verdict("unsat", None, tot, ";".join(hows)[:200])
        else:
            v.secs = tot
        self.solver_time += v.secs
        mv = None
        if v.status == "sat":
            # prefer a NON-DEGENERATE counter-model (pairwise distinct, non-zero inputs): a model that gives every
            # free input the same value often makes the concrete replay pass by coincidence
            try:
                nums = [_real(z) for z in self.symbols.values() if z.sort() != z3.BoolSort()]
                extra = ([z3.Distinct(*nums)] if len(nums) > 1 else []) + [z3.And(r != 0, r != 1) for r in nums]
                vd = solve(fmls + ax + extra, timeout_ms=min(3000, self.ex.verdict_timeout_ms))
                if vd.status == "sat":
                    v.model = vd.model
            except z3.Z3Exception:
                pass
            mv = self._model_vals(v.model, watch)
        ob = Obligation(label, v.status, v.secs, v.how, mv)
        if v.status == "sat" and self.ex.alt_budget.setdefault(label, 3) > 0:
            self.ex.alt_budget[label] -= 1
            # a second counter-model biased to LARGE magnitudes (greedy, bounded effort): differences that are tied
            # to a relative tolerance or to accumulated growth are invisible to floats at the tiny values a solver
            # likes to pick
            try:
                nums = [_real(z) for z in self.symbols.values() if z.sort() != z3.BoolSort()][:16]
                sv = _mk_solver(2000)
                sv.add(*(fmls + ax))
                kept = []
                for r in nums:
                    lit = z3.Or(r >= 100000, r <= -100000)
                    if zcheck(sv, *(kept + [lit]), ms=500) == z3.sat:
                        kept.append(lit)
                if kept:
                    vb = solve(fmls + ax + kept, timeout_ms=3000)
                    if vb.status == "sat":
                        ob.alt_vals.append(self._model_vals(vb.model, watch))
            except z3.Z3Exception:
                pass
        self.obligations.append(ob)
        if self.ex.dump_queries is not None:
            self.ex.dump_queries.append((label, fmls + ax, v.status))
        if fatal and v.status != "unsat":
            raise PathViolation(label)
        return v.status == "unsat"

    def reachable(self, label):
        """vacuity guard: the current point must be reachable (pc satisfiable)"""
        v = solve(self.pc, timeout_ms=self.ex.verdict_timeout_ms)
        self.solver_time += v.secs
        self.ex.reach[label] = self.ex.reach.get(label, 0) + (1 if v.status == "sat" else 0)
        return v.status == "sat"

    def witness(self, cond, label):
        """existential side query: pc & cond satisfiable? (recorded, never a violation)"""
        z = _b(cond) if not isinstance(cond, (bool, np.bool_)) else z3.BoolVal(bool(cond))
        v = solve(self.pc + [z], timeout_ms=self.ex.verdict_timeout_ms)
        self.solver_time += v.secs
        self.ex.witnesses[label] = self.ex.witnesses.get(label, 0) + (1 if v.status == "sat" else 0)
        return v.status == "sat"

    def _model_vals(self, model, watch):
        out = {}
        if model is None:
            return out
        for name, z in self.symbols.items():
            try:
                val = model_value(model, z)
                out[name] = val
            except Exception:
                pass
        for t in self.uf_apps:
            try:
                out["uf:" + t.sexpr()[:400]] = model_value(model, t)
                args = [model_value(model, t.arg(i)) for i in range(t.num_args())]
                out["ufpt:%s:%s" % (t.decl().name(), ",".join(str(float(a)) for a in args))] = model_value(model, t)
            except Exception:
                pass
        if watch:
            for k, w in watch.items():
                try:
                    out["watch:" + k] = model_value(model, to_z3(w))
                except Exception:
                    pass
        return out

    def note(self, msg):
        self.events.append(msg)


import contextlib


@contextlib.contextmanager
def _finite_predicates():
    """numpy's isfinite/isnan/isinf have no loop for object arrays.  During a symbolic run they are wrapped:
    a symbolic value is a finite real by the standing assumption (NaN/inf inputs are outside every claim), so
    isfinite -> True, isnan/isinf -> False elementwise; plain numbers go to the real ufunc."""
    real = {k: getattr(np, k) for k in ("isfinite", "isnan", "isinf")}

    def mk(name, sym_val):
        f = real[name]

        def g(x, *a, **k):
            if isinstance(x, Sym):
                return sym_val
            if isinstance(x, np.ndarray) and x.dtype == object:
                out = np.empty(x.shape, dtype=bool)
                for idx in np.ndindex(x.shape):
                    v = x[idx]
                    out[idx] = sym_val if isinstance(v, Sym) else bool(f(float(v)))
                return out
            if isinstance(x, (list, tuple)) and any(isinstance(v, Sym) for v in x):
                return np.array([sym_val if isinstance(v, Sym) else bool(f(float(v))) for v in x])
            return f(x, *a, **k)
        return g
    # exp/log/sqrt/sin/cos on an object array dispatch to a METHOD of each element; a plain float sitting in the
    # same array (a term that happened to be concrete) has no such method.  Wrap: elementwise, numbers go to math.
    realu = {k: getattr(np, k) for k in ("exp", "log", "sqrt", "sin", "cos")}

    def mku(name):
        f = realu[name]
        mf = getattr(math, name)

        def one(v):
            if isinstance(v, Sym):
                return getattr(v, name)()
            return mf(float(v))

        def g(x, *a, **k):
            if a or k:
                return f(x, *a, **k)
            if isinstance(x, np.ndarray) and x.dtype == object:
                out = np.empty(x.shape, dtype=object)
                for idx in np.ndindex(x.shape):
                    out[idx] = one(x[idx])
                return out if x.shape != () else out.item()
            return f(x)
        for attr in ("reduce", "accumulate", "outer", "at", "nin", "nout", "__name__"):
            try:
                setattr(g, attr, getattr(f, attr))
            except Exception:
                pass
        return g
    # isclose/allclose: numpy's own definition |a - b| <= atol + rtol*|b| (finite values), elementwise, so that the
    # comparison forks on the symbolic values instead of meeting the compiled isfinite loop
    real_isclose, real_allclose = np.isclose, np.allclose

    def _has_sym(x):
        if isinstance(x, Sym):
            return True
        if isinstance(x, np.ndarray):
            return x.dtype == object and any(isinstance(v, Sym) for v in x.ravel())
        if isinstance(x, (list, tuple)):
            return any(_has_sym(v) for v in x)
        return False

    def isclose(a, b, rtol=1e-05, atol=1e-08, equal_nan=False):
        if not (_has_sym(a) or _has_sym(b)):
            return real_isclose(a, b, rtol=rtol, atol=atol, equal_nan=equal_nan)
        A, B = np.broadcast_arrays(np.asarray(a, dtype=object), np.asarray(b, dtype=object))
        out = np.empty(A.shape, dtype=bool)
        for idx in np.ndindex(A.shape):
            x, y = A[idx], B[idx]
            out[idx] = bool(abs(x - y) <= atol + rtol * abs(y))     # one fork per element (abs is an ite term)
        return out if out.shape != () else bool(out)

    def allclose(a, b, rtol=1e-05, atol=1e-08, equal_nan=False):
        return bool(np.all(isclose(a, b, rtol=rtol, atol=atol, equal_nan=equal_nan)))
    np.isclose, np.allclose = isclose, allclose
    np.isfinite, np.isnan, np.isinf = mk("isfinite", True), mk("isnan", False), mk("isinf", False)
    for k_ in realu:
        setattr(np, k_, mku(k_))
    try:
        yield
    finally:
        np.isfinite, np.isnan, np.isinf = real["isfinite"], real["isnan"], real["isinf"]
        np.isclose, np.allclose = real_isclose, real_allclose
        for k_, f_ in realu.items():
            setattr(np, k_, f_)


class PathResult(object):
    def __init__(self, index, prefix, status, out, ctxobj, exc=None):
        self.index = index
        self.prefix = prefix
        self.status = status   # ok | abort | infeasible | exception | violation
        self.out = out
        self.exc = exc
        self.pc_size = len(ctxobj.pc)
        self.decisions = list(ctxobj.decisions)
        self.obligations = ctxobj.obligations
        self.assumed = [a.sexpr()[:300] for a in ctxobj.assumed[:12]] if index < 3 else []
        self.auto = [a.sexpr()[:300] for a in ctxobj.auto[:12]] if index < 3 else []
        self.events = ctxobj.events
        self.solver_time = ctxobj.solver_time
        self.feas_queries = ctxobj.feas_queries
        self.maybe_infeasible = ctxobj.maybe_infeasible
        self.abort_kind = None


class Explorer(object):
    def __init__(self, max_paths=2000, max_depth=400, verdict_timeout_ms=Z3_VERDICT_TIMEOUT_MS,
                 dump_queries=None, time_budget_s=None):
        self.max_paths = max_paths
        self.max_depth = max_depth
        self.verdict_timeout_ms = verdict_timeout_ms
        self.paths = []
        self.unknown_feasibility = 0
        self.budget_exhausted = False
        self.alt_budget = {}
        self.reach = {}
        self.witnesses = {}
        self.dump_queries = dump_queries
        self.time_budget_s = time_budget_s
        self.use_ring = True
        self.ring_stats = {"tried": 0, "proved": 0}

    def run(self, harness):
        """harness(ctx) -> anything.  Exceptions raised by the code under test are
        recorded as path results with status 'exception' (the harness decides
        whether that is a violation by catching them itself)."""
        with _finite_predicates():
            return self._run(harness)

    def _run(self, harness):
        global _CTX
        stack = [[]]
        t_start = time.time()
        while stack:
            if len(self.paths) >= self.max_paths or (
                    self.time_budget_s and time.time() - t_start > self.time_budget_s):
                self.budget_exhausted = True
                break
            prefix = stack.pop()
            c = Ctx(prefix, self)
            prev = _CTX
            _CTX = c
            status, out, exc = "ok", None, None
            try:
                out = harness(c)
            except Infeasible:
                status = "infeasible"
            except PathViolation as e:
                status = "violation"
            except Abort as e:
                status = "abort"
                exc = e
            except Exception as e:      # noqa: real code raised on this path
                msg = str(e)
                if isinstance(e, TypeError) and ("ufunc" in msg and ("not supported for the input types" in msg or "does not support argument" in msg)):
                    # a compiled numpy/scipy ufunc met a symbolic value: the path left the symbolic domain
                    status = "abort"
                    exc = Abort("compiled ufunc applied to a symbolic value: %s" % msg[:120], kind="c-boundary")
                else:
                    status = "exception"
                    exc = e
            finally:
                _CTX = prev
            pr = PathResult(len(self.paths), prefix, status, out, c, exc)
            if status == "abort":
                pr.abort_kind = exc.kind
            for ob in c.obligations:
                ob.path_index = pr.index
            self.paths.append(pr)
            n0 = len(prefix)
            for i in range(len(c.decisions) - 1, n0 - 1, -1):
                if c.alts[i]:
                    stack.append(c.decisions[:i] + [not c.decisions[i]])
        return self

    # ---- summaries -----------------------------------------------------------
    def summary(self):
        obs = [ob for p in self.paths for ob in p.obligations]
        return {
            "paths": len(self.paths),
            "paths_ok": sum(1 for p in self.paths if p.status == "ok"),
            "paths_infeasible": sum(1 for p in self.paths if p.status == "infeasible"),
            "paths_aborted": sum(1 for p in self.paths if p.status == "abort"),
            "paths_unwound": sum(1 for p in self.paths if p.status == "abort" and p.abort_kind == "unwind"),
            "paths_exception": sum(1 for p in self.paths if p.status == "exception"),
            "paths_violation": sum(1 for p in self.paths if p.status == "violation"),
            "queries": len(obs),
            "queries_unsat": sum(1 for o in obs if o.status == "unsat"),
            "queries_sat": sum(1 for o in obs if o.status == "sat"),
            "queries_unknown": sum(1 for o in obs if o.status == "unknown"),
            "queries_nontrivial": sum(1 for o in obs if o.how not in ("concrete", "simplify")),
            "queries_by_ring_tactic": sum(1 for o in obs if o.how and o.how.replace("ring", "").strip(";") == ""),
            "feasibility_queries": sum(p.feas_queries for p in self.paths),
            "unknown_feasibility": self.unknown_feasibility,
            "solver_time_s": round(sum(p.solver_time for p in self.paths), 3),
            "budget_exhausted": self.budget_exhausted,
            "ring_tried": self.ring_stats["tried"], "ring_proved": self.ring_stats["proved"],
        }

    def failed(self):
        return [(p, ob) for p in self.paths for ob in p.obligations if ob.status == "sat"]

    def unknown(self):
        return [(p, ob) for p in self.paths for ob in p.obligations if ob.status == "unknown"]


# --------------------------------------------------------------------------
# concrete (replay) context: same harness API, plain floats
# --------------------------------------------------------------------------
class ConcreteCtx(object):
    """Runs a harness with ordinary floats taken from a counter-model.  No proxies,
    no solver: the real code executes exactly as a user would run it."""
    mode = "concrete"

    def __init__(self, values, tol=1e-6):
        self.values = dict(values)
        self.tol = tol
        self.failed = []
        self.passed = []
        self.events = []
        self.missing = []

    def _get(self, name, default=None):
        if name in self.values:
            return self.values[name]
        self.missing.append(name)
        return default

    def real(self, name, lo=None, hi=None, lo_strict=False, hi_strict=False):
        v = self._get(name)
        if v is None:
            # value absent from the counter-model: deterministic, name-dependent completion
            import zlib
            u = (zlib.crc32(name.encode()) % 9973) / 9973.0
            base = 0.0 if lo is None else float(lo)
            v = base + 0.25 + u
            if hi is not None and v >= hi:
                lo_ = float(lo) if lo is not None else float(hi) - 2.0
                v = lo_ + (float(hi) - lo_) * (0.1 + 0.8 * u)
        return float(v)

    def pos(self, name):
        return self.real(name, lo=0, lo_strict=True)

    def int(self, name, lo=None, hi=None):
        v = self._get(name)
        if v is None:
            v = lo if lo is not None else 0
        return int(v)

    def intreal(self, name, lo=None, hi=None):
        return float(self.int(name, lo, hi))

    def boolean(self, name):
        return bool(self._get(name, False))

    def vec(self, name, n, **kw):
        return np.array([self.real("%s%d" % (name, i), **kw) for i in range(n)], dtype=float)

    def choice(self, name, n):
        return int(self._get(name, 0))

    def uf(self, name, arity=1):
        pts = {}
        for k, v in self.values.items():
            if k.startswith("ufpt:%s:" % name):
                args = tuple(float(a) for a in k.split(":", 2)[2].split(","))
                pts[args] = float(v)

        def call(*args):
            key = tuple(float(a) for a in args)
            best, bd = None, None
            for p, v in pts.items():
                d = max(abs(a - b) / (1.0 + abs(b)) for a, b in zip(key, p))
                if bd is None or d < bd:
                    best, bd = v, d
            if best is None or bd > 1e-6:
                self.missing.append("uf %s%r" % (name, key))
                # arbitrary but deterministic completion
                return float(sum((i + 1) * 0.37 * a for i, a in enumerate(key)) + 0.11 * len(name))
            return best
        return call

    def assume(self, cond):
        if not bool(cond):
            raise Infeasible()

    def nonzero(self, z):
        pass

    def prove(self, cond, label, fatal=False, watch=None):
        ok = bool(cond)
        (self.passed if ok else self.failed).append(label)
        if fatal and not ok:
            raise PathViolation(label)
        return ok

    def reachable(self, label):
        return True

    def witness(self, cond, label):
        return bool(cond)

    def note(self, msg):
        self.events.append(msg)


def close(a, b, ctxobj, tol=None):
    """equality in sym mode, tolerance comparison in concrete mode"""
    if ctxobj.mode == "sym":
        if isinstance(a, Sym) or isinstance(b, Sym):
            r = (a == b) if isinstance(a, Sym) else (b == a)
            return r
        # two plain numbers met on a symbolic path (a constant entry such as -0.04 of a Jacobian): a float is the
        # rounding of the exact rational the oracle carries
        try:
            fa, fb = float(a), float(b)
            return fa == fb or abs(fa - fb) <= 1e-12 * (1.0 + max(abs(fa), abs(fb)))
        except (TypeError, ValueError):
            return bool(a == b)
    tol = ctxobj.tol if tol is None else tol
    a, b = float(a), float(b)
    if a == b:          # also equal infinities
        return True
    if not (math.isfinite(a) and math.isfinite(b)):
        return False    # inf vs finite, NaN: never "close" (inf <= tol*inf would be True)
    return abs(a - b) <= tol * (1.0 + max(abs(a), abs(b)))


def all_close(A, B, ctxobj, tol=None):
    """conjunction of elementwise close() as one condition"""
    A = np.asarray(A, dtype=object)
    B = np.asarray(B, dtype=object)
    if A.shape != B.shape:
        return False
    conds = []
    for a, b in zip(A.ravel(), B.ravel()):
        c = close(a, b, ctxobj, tol)
        if isinstance(c, SymBool):
            conds.append(c.z)
        elif not c:
            return False
    if not conds:
        return True
    return SymBool(z3.And(*conds)) if len(conds) > 1 else SymBool(conds[0])


CONCRETE_RUN = False


def run_concrete(harness, values, tol=1e-6):
    global _CTX
    global CONCRETE_RUN
    c = ConcreteCtx(values, tol)
    prev = _CTX
    _CTX = None
    status, exc = "ok", None
    prev_cr = CONCRETE_RUN
    CONCRETE_RUN = True          # model caches hand out fresh objects: nothing symbolic may linger in a replayed model
    try:
        harness(c)
    except Infeasible:
        status = "infeasible"
    except PathViolation:
        status = "violation"
    except Abort as e:
        status, exc = "abort", e
    except Exception as e:
        status, exc = "exception", e
    finally:
        _CTX = prev
        CONCRETE_RUN = prev_cr
    return c, status, exc


def near(a, b, ctxobj, eps=1e-9, tol=None):
    """|a-b| <= eps in sym mode (float constants computed by the code differ from the reference
    by rounding); tolerance comparison in concrete mode"""
    if ctxobj.mode == "sym":
        if isinstance(a, Sym) or isinstance(b, Sym):
            dz = _real(to_z3(a)) - _real(to_z3(b))
            e = z3.RealVal(repr(eps))
            return SymBool(z3.And(dz <= e, -dz <= e))
        return abs(a - b) <= eps
    return close(a, b, ctxobj, tol)


def all_near(A, B, ctxobj, eps=1e-9, tol=None):
    A = np.asarray(A, dtype=object)
    B = np.asarray(B, dtype=object)
    if A.shape != B.shape:
        return False
    conds = []
    for a, b in zip(A.ravel(), B.ravel()):
        cnd = near(a, b, ctxobj, eps, tol)
        if isinstance(cnd, SymBool):
            conds.append(cnd.z)
        elif not cnd:
            return False
    if not conds:
        return True
    return SymBool(z3.And(*conds)) if len(conds) > 1 else SymBool(conds[0])
