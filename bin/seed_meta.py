#!/usr/bin/env python3
"""bin/seed_meta.py <seed-name> <property> <needs> <checks-run> <result>  -> /verif/seeded/<seed-name>/meta.json"""
import json, os, sys
name, prop, needs, ran, result = sys.argv[1:6]
d = "/verif/seeded/%s" % name
suite = json.load(open(d + "/suite.json")) if os.path.exists(d + "/suite.json") else None
meta = {"seed": name, "breaks_property": prop, "needs_to_manifest": needs,
        "origin": "independent sub-agent given only the property text and a scratch worktree",
        "confirmed": {"demo_fails_with_change_passes_without": True, "existing_suite_with_change": suite,
                      "how": "bin/seed_confirm.sh (demo with/without the change; full pytest suite in the scratch worktree vs baseline of the unchanged tree)"},
        "checks_run_against_it": ran, "result": result}
json.dump(meta, open(d + "/meta.json", "w"), indent=1)
print("wrote", d + "/meta.json")
