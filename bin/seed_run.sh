#!/bin/bash
# bin/seed_run.sh <seed-name> <tier> <Cxx> [<Cyy> ...] : apply the seeded change to /repo, run the given checks, undo it
N=$1; TIER=$2; shift 2
D=/verif/seeded/$N
cd /verif
git -C /repo apply "$D/patch.diff" || exit 3
trap 'git -C /repo checkout -- . ; bin/setup.sh >/dev/null' EXIT
bin/setup.sh >/dev/null
for P in "$@"; do
  bin/pgv check $P --tier $TIER 2>&1 | grep -v "^WARNING" | grep -E "^(VIOLATION|KNOWN|C[0-9]+ |  violation|  inconclusive)" | cut -c1-400
  echo "$P exit=${PIPESTATUS[0]}"
done
