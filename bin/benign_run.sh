#!/bin/bash
# bin/seed_run.sh <seed-name> <tier> <Cxx> [<Cyy> ...] : run the given checks against the seeded change.
# The change is applied to a throw-away worktree of /repo's HEAD (PGV_REPO aims the checks at it), so /repo itself is
# never modified and several seeds can be tried at once.  SEED_IN_REPO=1 applies it to /repo instead and undoes it.
N=$1; TIER=$2; shift 2
D=/verif/benign/$N
cd /verif
if [ -n "$SEED_IN_REPO" ]; then
  git -C /repo apply "$D/patch.diff" || exit 3
  trap 'git -C /repo checkout -- . ; bin/setup.sh >/dev/null' EXIT
else
  WT=/tmp/wt/brun_$N.$$
  git -C /repo worktree add --detach "$WT" HEAD >/dev/null 2>&1 || exit 3
  cp /repo/src/pygom/model/_tau_leap*.so "$WT/src/pygom/model/" 2>/dev/null
  trap 'git -C /repo worktree remove --force "$WT"; rm -rf /tmp/wt/evidence_$N.$$' EXIT
  git -C "$WT" apply "$D/patch.diff" || exit 3
  export PGV_REPO=$WT
  export PGV_EVIDENCE_DIR=/tmp/wt/evidence_$N.$$
fi
bin/setup.sh >/dev/null
for P in "$@"; do
  bin/pgv check $P --tier $TIER 2>&1 | grep -v "^WARNING" | grep -E "^(VIOLATION|KNOWN|C[0-9]+ |  violation|  inconclusive)" | cut -c1-400
  echo "$P exit=${PIPESTATUS[0]}"
done
