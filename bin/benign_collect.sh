#!/bin/bash
# bin/seed_collect.sh <seed-name> <worktree> : store a seeded change (patch + demo + notes) under /verif/benign/<seed-name>
set -e
N=$1; WT=$2
D=/verif/benign/$N
mkdir -p "$D"
git -C "$WT" diff -- src > "$D/patch.diff"
cp "$WT"/equiv_*.py "$D/" 2>/dev/null || true
cp "$WT"/NOTES_*.md "$D/" 2>/dev/null || true
wc -l "$D/patch.diff"
