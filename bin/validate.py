#!/opt/veriftools/pyvenv/bin/python
import json, sys, glob, jsonschema
m = json.load(open('/verif/MANIFEST.json'))
jsonschema.validate(m, json.load(open('/root/.vp/MANIFEST.schema.json')))
es = json.load(open('/root/.vp/EVIDENCE.schema.json'))
for c in m['checks']:
    try:
        jsonschema.validate(json.load(open('/verif/' + c['evidence_file'])), es)
    except Exception as e:
        print('EVIDENCE', c['property_id'], str(e)[:300])
ids = {c['property_id'] for c in m['checks']} | {n['property_id'] for n in m.get('not_applicable', [])}
allp = {json.loads(l)['id'] for l in open('/verif/properties.jsonl')}
print('manifest ok; claimed', len(m['checks']), 'n/a', len(m.get('not_applicable', [])), 'unlisted', sorted(allp - ids))
