#!/bin/bash
# bin/seed_confirm.sh <seed-name> <worktree> [-n jobs]: confirm a seeded change in its scratch worktree:
#   demo fails with the change and passes without it; the full existing suite passes with the change.
N=$1; WT=$2; J=${3:-6}
D=/verif/seeded/$N
cd "$WT"
DEMO=$(ls demo_*.py | head -1)
PYTHONPATH=$WT/src timeout 1200 /venv/bin/python $DEMO > "$D/demo_with_change.out" 2>&1; A=$?
# (no git stash: the stash is shared between all worktrees of a repository)
git apply -R "$D/patch.diff"
PYTHONPATH=$WT/src timeout 1200 /venv/bin/python $DEMO > "$D/demo_without_change.out" 2>&1; B=$?
git apply "$D/patch.diff"
echo "demo with change exit=$A ; without change exit=$B"
PYTHONPATH=$WT/src /venv/bin/python -m pytest -q -p no:cacheprovider --timeout=900 --continue-on-collection-errors -n $J --dist loadfile tests --junitxml=/tmp/suite/$N.xml > /tmp/suite/$N.log 2>&1
tail -1 /tmp/suite/$N.log
python3 - "$N" <<'PY'
import sys, xml.etree.ElementTree as ET, json
def res(p):
    out={}
    for tc in ET.parse(p).getroot().iter('testcase'):
        k=tc.get('classname')+'::'+tc.get('name')
        bad = any(c.tag in ('failure','error') for c in tc)
        skip = any(c.tag=='skipped' for c in tc)
        out[k]='fail' if bad else ('skip' if skip else 'pass')
    return out
base=res('/tmp/suite/base.xml'); new=res('/tmp/suite/%s.xml'%sys.argv[1])
reg=[k for k,v in base.items() if v=='pass' and new.get(k)!='pass']
print("baseline pass=%d; with change pass=%d; regressions=%s" % (sum(v=='pass' for v in base.values()), sum(v=='pass' for v in new.values()), reg))
json.dump({"baseline_pass": sum(v=='pass' for v in base.values()), "with_change_pass": sum(v=='pass' for v in new.values()), "regressions": reg}, open('/verif/seeded/%s/suite.json'%sys.argv[1],'w'))
PY
