#!/bin/bash
# idempotent offline setup of /verif/.venv (overlay on /venv) + z3-solver, cvc5
set -e
VERIF="$(cd "$(dirname "$0")/.." && pwd)"
PY="$VERIF/.venv/bin/python"
if [ ! -x "$PY" ] || ! "$PY" -c "import z3" 2>/dev/null; then
  (
    flock 9
    if [ ! -x "$PY" ] || ! "$PY" -c "import z3" 2>/dev/null; then
      rm -rf "$VERIF/.venv"
      /venv/bin/python -m venv "$VERIF/.venv"
      SP=$("$PY" -c "import sysconfig; print(sysconfig.get_paths()['purelib'])")
      echo "import site; site.addsitedir('/venv/lib/python3.12/site-packages')" > "$SP/_verif_overlay.pth"
      PIP_NO_INDEX=1 "$PY" -m pip install -q --no-index --find-links /opt/veriftools/wheels z3-solver cvc5
    fi
  ) 9>"$VERIF/.venv.lock"
fi
# Cython helper: rebuild in place when the .pyx is newer than the built module
REPO="${PGV_REPO:-/repo}"
PYX=$REPO/src/pygom/model/_tau_leap.pyx
SO=$(ls $REPO/src/pygom/model/_tau_leap*.so 2>/dev/null | head -1)
if [ -z "$SO" ] || [ "$PYX" -nt "$SO" ]; then
  (cd $REPO && /venv/bin/python setup.py build_ext --inplace -q) >/dev/null 2>&1 || true
fi
echo ok
