"""Regenerate /verif/MANIFEST.json from the checks' own metadata (run with bin/pgv's interpreter:
   PYTHONPATH=/verif:/repo/src .venv/bin/python bin/mkmanifest.py)."""
import importlib
import json
import os
import warnings

warnings.filterwarnings("ignore")
VERIF = os.path.dirname(os.path.dirname(os.path.abspath(__file__)))

DESIGN_REF = {}
TECHNIQUE = ("symbolic execution of the real Python functions on z3-backed numbers (proxy objects in numpy "
             "object arrays), one z3 validity query 'path condition AND assumptions AND NOT property' per "
             "obligation and path (QF_NRA + uninterpreted functions), within stated bounds; counterexamples "
             "replayed on the real code with floats")
EXTRA_TECH = {
    "C01": "; sympy->SMT translation of the symbolic getters; independent expression-tree oracle",
    "C03": "; oracle derivatives from an independent differentiator",
    "C04": "; one-step inductive harness + K-step unwinding of the real _jump loop; de-typed Cython helper executed symbolically",
    "C05": "; first-reaction map characterisation (no sampling)",
    "C08": "; bounded operation histories, evaluator output vs freshly built model as z3 term equality",
    "C11": "; one-step inductive harness + K-step unwinding",
    "C13": "; oracle by independent differentiation of the augmented right-hand side",
    "C15": "; arbitrary legal path as symbolic input, all interleavings of event and grid times by forking",
    "C16": "; self-composition (two runs against one symbolic random stream)",
    "C17": "; one generation of the real ABC loop from an arbitrary previous generation (inductive step), rejection loop unwound",
    "C18": "; optimiser replaced by its contract",
    "C19": "; scipy.stats as uninterpreted functions with signature normalisation",
}
NOT_APPLICABLE = []


def main():
    ids = ["C%02d" % i for i in range(1, 21)]
    checks, engines_served = [], []
    for pid in ids:
        if any(n["property_id"] == pid for n in NOT_APPLICABLE):
            continue
        try:
            chk = importlib.import_module("pgv.checks.%s" % pid.lower()).CHECK
        except ImportError:
            continue
        engines_served.append(pid)
        note = "Assumed / outside the claim: " + "; ".join(chk.assumptions)
        if chk.stubs:
            note += ". Environment stubs (part of the claim): " + "; ".join(chk.stubs)
        note += ". Bounds per harness are written to the evidence file (coverage.bounds)."
        checks.append({
            "property_id": pid,
            "quick_cmd": "bin/pgv check %s --tier quick" % pid,
            "thorough_cmd": "bin/pgv check %s --tier thorough" % pid,
            "evidence_file": "evidence/%s.json" % pid,
            "replay_cmd_template": "bin/pgv replay {path}",
            "engine": "pgsx",
            "level_claimed": {"category": chk.level, "text": chk.explanation,
                              "design_ref": "DESIGN.md section 3/%s and section 10" % pid},
            "level_note": note,
            "technique": TECHNIQUE + EXTRA_TECH.get(pid, ""),
        })
    man = {
        "version": 1,
        "setup_cmd": "bin/setup.sh",
        "hooks": {
            "guard": "PYGOM_VERIF",
            "enable": "no hooks: checks monkey-patch module attributes from the harness; /repo sources are imported unmodified from /repo/src",
            "baseline_off_cmd": "cd /repo && /venv/bin/python -m pytest -ra -q -p no:cacheprovider --timeout=900 --continue-on-collection-errors",
            "source_commits": [],
            "add_only": True,
        },
        "engines": [{
            "name": "pgsx", "path": "pgv/", "serves_properties": engines_served,
            "kind_free_text": "proxy symbolic execution of the real PyGOM functions on z3-backed numbers in numpy object arrays; path exploration by re-execution; z3 validity queries per path; contract stubs at compiled boundaries",
        }],
        "checks": checks,
        "not_applicable": NOT_APPLICABLE,
        "notes": "All checks are solver-decided within the bounds written to each evidence file; exit 2 = inconclusive (solver unknown, budget, non-reproducing counterexample). Known findings: known_findings.json. See DESIGN.md.",
    }
    with open(os.path.join(VERIF, "MANIFEST.json"), "w") as f:
        json.dump(man, f, indent=1)
    print("wrote MANIFEST.json with %d checks, %d n/a" % (len(checks), len(NOT_APPLICABLE)))


if __name__ == "__main__":
    main()
