#!/bin/bash
# scratch worktree of /repo for a seeded-change experiment: bin/mkworktree.sh <name>  ->  /tmp/wt/<name>
set -e
D=/tmp/wt/$1
git -C /repo worktree add --detach "$D" HEAD >/dev/null 2>&1
cp /repo/src/pygom/model/_tau_leap*.so "$D/src/pygom/model/" 2>/dev/null || true
echo "$D"
